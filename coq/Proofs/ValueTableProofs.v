(* Proofs about Model/ValueTable.v: little-endian codec, slot codec round trip with the marker
   disjointness it rests on, chain write/read round trip for every payload length, tier choice. *)
From Coq Require Import NArith List Bool Lia Arith.
From PDB Require Import Gen.Consts Model.ValueTable.
Import ListNotations.
Open Scope N_scope.

(* ---- constants as the proofs use them (re-checked against the regenerated Consts.v) ---- *)
Lemma consts_ok :
  table_tombstone = [255; 255] /\ table_multipart = [254; 255] /\ table_multihead = [253; 255] /\
  table_multihead_compressed = [253; 127] /\ table_compressed_mask = 32768 /\ table_size_size = 2 /\
  table_index_size = 8 /\ table_max_entry_size = 32760 /\ table_multipart_entry_size = 4096 /\
  table_refs_size = 4 /\ table_partial_size = 26.
Proof. repeat split. Qed.

(* ---- little endian ---- *)
Lemma le_encode_length n : forall x, length (le_encode n x) = n.
Proof. induction n as [|n IH]; intros x; cbn [le_encode length]; [reflexivity|]. rewrite IH. reflexivity. Qed.

Lemma le_roundtrip n : forall x, x < 256 ^ N.of_nat n -> le_decode (le_encode n x) = x.
Proof.
  induction n as [|n IH]; intros x H; cbn [le_encode le_decode].
  - cbn in H. lia.
  - rewrite IH.
    + pose proof (N.div_mod x 256 ltac:(lia)). lia.
    + rewrite Nat2N.inj_succ, N.pow_succ_r' in H. apply N.div_lt_upper_bound; lia.
Qed.

Lemma le_decode_app_exact n x rest : le_decode (firstn n (le_encode n x ++ rest)) = le_decode (le_encode n x).
Proof. rewrite firstn_app, le_encode_length, Nat.sub_diag, firstn_O, app_nil_r, firstn_all2 by (rewrite le_encode_length; lia). reflexivity. Qed.

Lemma bytes_eqb_2 a b c d : bytes_eqb [a; b] [c; d] = true -> a = c /\ b = d.
Proof.
  unfold bytes_eqb. cbn. intros H. apply andb_true_iff in H as [H1 H2].
  apply andb_true_iff in H2 as [H2 _]. apply N.eqb_eq in H1, H2. split; assumption.
Qed.
Lemma bytes_eqb_refl a : bytes_eqb a a = true.
Proof.
  unfold bytes_eqb. rewrite N.eqb_refl. cbn. induction a as [|x a IH]; cbn; [reflexivity|]. rewrite N.eqb_refl. exact IH.
Qed.

(* ---- marker disjointness: a size header the code can write is never a marker ---- *)
Definition header_val (len : N) (c : bool) : N := if c then len + 32768 else len.

Lemma header_not_marker len c : len <= 32758 ->
  bytes_eqb (le_encode 2 (header_val len c)) table_tombstone = false /\
  bytes_eqb (le_encode 2 (header_val len c)) table_multipart = false /\
  bytes_eqb (le_encode 2 (header_val len c)) table_multihead = false /\
  bytes_eqb (le_encode 2 (header_val len c)) table_multihead_compressed = false.
Proof.
  intros Hl.
  assert (Hv : header_val len c < 256 ^ N.of_nat 2) by (unfold header_val; destruct c; cbn; lia).
  pose proof (le_roundtrip 2 _ Hv) as R.
  assert (G : forall m, le_decode m <> header_val len c -> length m = 2%nat ->
              bytes_eqb (le_encode 2 (header_val len c)) m = false).
  { intros m Hne Hlen. destruct (bytes_eqb (le_encode 2 (header_val len c)) m) eqn:E; [|reflexivity].
    exfalso. destruct m as [|p [|q [|? ?]]]; try discriminate.
    cbn [le_encode] in E. apply bytes_eqb_2 in E as [E1 E2]. apply Hne. rewrite <- R. cbn [le_encode le_decode]. rewrite E1, E2. reflexivity. }
  repeat split; apply G; try reflexivity; unfold header_val; destruct c; cbn; lia.
Qed.

(* ---- slot codec ---- *)
Definition slot_wf (mp : bool) (es : N) (s : slot) : Prop :=
  match s with
  | SFull _ body => N.of_nat (length body) + 2 <= es /\ N.of_nat (length body) <= 32758
  | SHead _ next body => mp = true /\ N.of_nat (length body) + 10 = es /\ next < 2^64
  | SPart next body => mp = true /\ N.of_nat (length body) + 10 = es /\ next < 2^64
  | STomb next => next < 2^64
  end.

Lemma firstn_app_exact {A} (a b : list A) : firstn (length a) (a ++ b) = a.
Proof. rewrite firstn_app, Nat.sub_diag, firstn_O, app_nil_r. apply firstn_all. Qed.
Lemma skipn_app_exact {A} (a b : list A) : skipn (length a) (a ++ b) = b.
Proof. rewrite skipn_app, Nat.sub_diag, skipn_all. reflexivity. Qed.

Lemma firstn_len_app {A} n (a b : list A) : length a = n -> firstn n (a ++ b) = a.
Proof. intros <-. apply firstn_app_exact. Qed.
Lemma skipn_len_app {A} n (a b : list A) : length a = n -> skipn n (a ++ b) = b.
Proof. intros <-. apply skipn_app_exact. Qed.

Lemma pow64 : 2^64 = 256 ^ N.of_nat 8. Proof. reflexivity. Qed.

Theorem slot_roundtrip mp es s junk : slot_wf mp es s ->
  decode_slot mp es (encode_slot s ++ junk) = Some s.
Proof.
  destruct s as [c body|c next body|next body|next]; cbn [slot_wf encode_slot]; intros H.
  - destruct H as [H1 H2]. unfold decode_slot, size_header.
    replace (if c then N.of_nat (length body) + table_compressed_mask else N.of_nat (length body))
      with (header_val (N.of_nat (length body)) c) by (unfold header_val; destruct c; reflexivity).
    set (h := le_encode 2 (header_val (N.of_nat (length body)) c)).
    assert (Hh : length h = 2%nat) by apply le_encode_length.
    rewrite <- !app_assoc.
    rewrite (firstn_len_app 2 h (body ++ junk) Hh), (skipn_len_app 2 h (body ++ junk) Hh).
    destruct (header_not_marker (N.of_nat (length body)) c H2) as (E1 & E2 & E3 & E4). fold h in E1, E2, E3, E4.
    rewrite E1, E2, E3, E4. rewrite !andb_false_r. cbn [orb].
    assert (Hv : header_val (N.of_nat (length body)) c < 256 ^ N.of_nat 2) by (unfold header_val; destruct c; cbn; lia).
    unfold h. rewrite (le_roundtrip 2 _ Hv). unfold header_val, table_compressed_mask.
    destruct c.
    + replace (32768 <=? N.of_nat (length body) + 32768) with true by (symmetry; apply N.leb_le; lia).
      replace (N.of_nat (length body) + 32768 - 32768) with (N.of_nat (length body)) by lia.
      rewrite Nat2N.id, firstn_app_exact. reflexivity.
    + replace (32768 <=? N.of_nat (length body)) with false by (symmetry; apply N.leb_gt; lia).
      rewrite Nat2N.id, firstn_app_exact. reflexivity.
  - destruct H as (-> & H2 & H3).
    assert (Hn : length (le_encode 8 next) = 8%nat) by apply le_encode_length.
    assert (G : forall m, length m = 2%nat -> bytes_eqb m table_tombstone = false ->
              bytes_eqb m table_multipart = false ->
              (bytes_eqb m table_multihead || bytes_eqb m table_multihead_compressed) = true ->
              decode_slot true es ((m ++ le_encode 8 next ++ body) ++ junk)
              = Some (SHead (bytes_eqb m table_multihead_compressed) next body)).
    { intros m Hm E1 E2 E3. unfold decode_slot. rewrite <- !app_assoc.
      rewrite (firstn_len_app 2 m _ Hm), (skipn_len_app 2 m _ Hm), E1, E2, E3. cbn [andb].
      rewrite (firstn_len_app 8 _ (body ++ junk) Hn), (skipn_len_app 8 _ (body ++ junk) Hn).
      rewrite le_roundtrip by (rewrite <- pow64; exact H3).
      replace (N.to_nat es - 10)%nat with (length body) by lia. rewrite firstn_app_exact. reflexivity. }
    destruct c; rewrite G; reflexivity.
  - destruct H as (-> & H2 & H3).
    assert (Hn : length (le_encode 8 next) = 8%nat) by apply le_encode_length.
    unfold decode_slot. rewrite <- !app_assoc.
    rewrite (firstn_len_app 2 table_multipart _ eq_refl), (skipn_len_app 2 table_multipart _ eq_refl).
    replace (bytes_eqb table_multipart table_tombstone) with false by reflexivity.
    replace (bytes_eqb table_multipart table_multipart) with true by reflexivity. cbn [andb].
    rewrite (firstn_len_app 8 _ (body ++ junk) Hn), (skipn_len_app 8 _ (body ++ junk) Hn).
    rewrite le_roundtrip by (rewrite <- pow64; exact H3).
    replace (N.to_nat es - 10)%nat with (length body) by lia. rewrite firstn_app_exact. reflexivity.
  - assert (Hn : length (le_encode 8 next) = 8%nat) by apply le_encode_length.
    unfold decode_slot. rewrite <- !app_assoc.
    rewrite (firstn_len_app 2 table_tombstone _ eq_refl), (skipn_len_app 2 table_tombstone _ eq_refl).
    replace (bytes_eqb table_tombstone table_tombstone) with true by reflexivity.
    rewrite (firstn_len_app 8 _ junk Hn).
    rewrite le_roundtrip by (rewrite <- pow64; exact H). reflexivity.
Qed.

(* ---- chains ---- *)
Definition agrees (T : tbl) (ws : list (N * slot)) : Prop := forall i s, In (i, s) ws -> T i = Some s.

Lemma tbl_put_agrees ws : forall T, NoDup (map fst ws) -> agrees (tbl_put T ws) ws.
Proof.
  unfold tbl_put. induction ws as [|[i s] ws IH] using rev_ind; intros T Hnd j s' Hin; [destruct Hin|].
  rewrite fold_left_app. cbn [fold_left fst snd].
  rewrite map_app in Hnd. cbn [map fst] in Hnd.
  apply in_app_or in Hin as [Hin|[Hin|[]]].
  - destruct (N.eqb_spec j i) as [->|Hne].
    + exfalso. apply NoDup_remove_2 in Hnd. rewrite app_nil_r in Hnd. apply Hnd.
      change i with (fst (i, s')). apply in_map. exact Hin.
    + apply IH; [|exact Hin]. apply NoDup_remove_1 in Hnd. rewrite app_nil_r in Hnd. exact Hnd.
  - injection Hin as <- <-. rewrite N.eqb_refl. reflexivity.
Qed.

Lemma write_chain_fst fuel es : forall first c prefix payload idxs,
  exists k, map fst (write_chain fuel es first c prefix payload idxs) = firstn k idxs.
Proof.
  induction fuel as [|f IH]; intros first c prefix payload idxs; cbn [write_chain]; [exists O; reflexivity|].
  destruct idxs as [|idx more]; [exists O; reflexivity|].
  destruct (es - table_size_size <? N.of_nat (length prefix + length payload)).
  - cbn [map fst]. destruct (IH false c [] (skipn (N.to_nat (es - table_size_size - table_index_size) - length prefix) payload) more) as [k Hk].
    exists (S k). cbn [firstn]. rewrite Hk. reflexivity.
  - exists 1%nat. reflexivity.
Qed.

Lemma in_firstn {A} k : forall (l : list A) x, In x (firstn k l) -> In x l.
Proof.
  induction k as [|k IH]; intros [|a l] x H; cbn [firstn] in H; try contradiction.
  destruct H as [->|H]; [left; reflexivity|right; apply IH; exact H].
Qed.

Lemma NoDup_firstn {A} k : forall (l : list A), NoDup l -> NoDup (firstn k l).
Proof.
  induction k as [|k IH]; intros [|a l] H; cbn [firstn]; try constructor.
  - inversion H; subst. intros Hin. apply H2. eapply in_firstn. exact Hin.
  - inversion H; subst. apply IH. assumption.
Qed.

(* reading the tail of a chain (parts after the first) gives back the payload *)
Lemma read_tail mp es c : 10 < es -> forall fuel payload idxs T,
  (length payload < fuel)%nat -> (length payload < length idxs)%nat -> ~ In 0 idxs ->
  agrees T (write_chain fuel es false c [] payload idxs) ->
  exists b, read_chain fuel mp T (hd 0 idxs) false = Some (b, payload).
Proof.
  intros Hes. unfold table_size_size, table_index_size.
  induction fuel as [|f IH]; intros payload idxs T Hf Hi H0 Hag; [lia|].
  destruct idxs as [|idx more]; [cbn in Hi; lia|].
  cbn [write_chain app length hd] in *. unfold table_size_size, table_index_size in Hag.
  destruct (es - 2 <? N.of_nat (0 + length payload)) eqn:E.
  - apply N.ltb_lt in E.
    set (take := (N.to_nat (es - 2 - 8) - 0)%nat) in *.
    assert (Htake : (0 < take)%nat) by (unfold take; lia).
    assert (Hlen : (take < length payload)%nat) by (unfold take; lia).
    cbn [read_chain]. rewrite (Hag idx (SPart (hd 0 more) (firstn take payload))) by (left; reflexivity).
    cbn [app].
    destruct (IH (skipn take payload) more T) as [b Hb].
    + rewrite skipn_length. lia.
    + rewrite skipn_length. cbn [length] in Hi. lia.
    + intros Hin. apply H0. right. exact Hin.
    + intros i s Hin. apply Hag. right. exact Hin.
    + rewrite Hb. exists false. rewrite firstn_skipn. reflexivity.
  - cbn [read_chain]. rewrite (Hag idx (SFull c payload)) by (left; reflexivity).
    destruct mp; cbn [andb]; exists c; reflexivity.
Qed.

(* a fresh chain in the multipart tier (it always needs at least two parts) reads back exactly *)
Theorem chain_roundtrip_multipart es c prefix payload idxs T fuel :
  10 + N.of_nat (length prefix) < es -> es - 2 < N.of_nat (length prefix + length payload) ->
  (length payload + 1 < fuel)%nat -> (length payload + 1 < length idxs)%nat -> NoDup idxs -> ~ In 0 idxs ->
  read_chain fuel true (tbl_put T (write_chain fuel es true c prefix payload idxs)) (hd 0 idxs) true
  = Some (c, prefix ++ payload).
Proof.
  intros Hes Hbig Hf Hi Hnd H0.
  assert (Hag : agrees (tbl_put T (write_chain fuel es true c prefix payload idxs)) (write_chain fuel es true c prefix payload idxs)).
  { apply tbl_put_agrees. destruct (write_chain_fst fuel es true c prefix payload idxs) as [k ->]. apply NoDup_firstn. exact Hnd. }
  set (T' := tbl_put T _) in *. clearbody T'.
  destruct fuel as [|f]; [lia|]. destruct idxs as [|idx more]; [cbn in Hi; lia|].
  cbn [write_chain hd] in *. unfold table_size_size, table_index_size in *.
  replace (es - 2 <? N.of_nat (length prefix + length payload)) with true in Hag by (symmetry; apply N.ltb_lt; exact Hbig).
  set (take := (N.to_nat (es - 2 - 8) - length prefix)%nat) in *.
  cbn [read_chain]. rewrite (Hag idx (SHead c (hd 0 more) (prefix ++ firstn take payload))) by (left; reflexivity).
  destruct (read_tail true es c ltac:(lia) f (skipn take payload) more T') as [b Hb].
  - rewrite skipn_length. lia.
  - rewrite skipn_length. cbn [length] in Hi. unfold take. lia.
  - intros Hin. apply H0. right. exact Hin.
  - intros i s Hin. apply Hag. right. exact Hin.
  - rewrite Hb. rewrite <- app_assoc, firstn_skipn. reflexivity.
Qed.

(* in a fixed-size tier the value fits one slot and reads back exactly *)
Theorem chain_roundtrip_single es c prefix payload idxs T fuel :
  N.of_nat (length prefix + length payload) <= es - 2 -> (0 < fuel)%nat -> idxs <> [] ->
  read_chain fuel false (tbl_put T (write_chain fuel es true c prefix payload idxs)) (hd 0 idxs) true
  = Some (c, prefix ++ payload).
Proof.
  intros Hfit Hf Hi. destruct fuel as [|f]; [lia|]. destruct idxs as [|idx more]; [contradiction|].
  cbn [write_chain hd]. unfold table_size_size.
  replace (es - 2 <? N.of_nat (length prefix + length payload)) with false by (symmetry; apply N.ltb_ge; exact Hfit).
  unfold tbl_put. cbn [fold_left fst snd read_chain]. rewrite N.eqb_refl. reflexivity.
Qed.

(* ---- tier choice ---- *)
Lemma first_tier_fits sizes : forall i rcd keyed len t, first_tier sizes i rcd keyed len = Some t ->
  exists es s, nth_error sizes (N.to_nat (t - i)) = Some es /\ i <= t /\ value_size es rcd keyed = Some s /\ len <= s.
Proof.
  induction sizes as [|es sizes IH]; intros i rcd keyed len t H; cbn [first_tier] in H; [discriminate|].
  destruct (value_size es rcd keyed) as [s|] eqn:Ev.
  - destruct (N.leb_spec len s) as [Hle|Hgt].
    + injection H as <-. exists es, s. rewrite N.sub_diag. cbn. repeat split; try assumption; lia.
    + destruct (IH _ _ _ _ _ H) as (es' & s' & H1 & H2 & H3 & H4). exists es', s'.
      replace (N.to_nat (t - i)) with (S (N.to_nat (t - (i + 1)))) by lia. cbn [nth_error]. repeat split; try assumption; lia.
  - destruct (IH _ _ _ _ _ H) as (es' & s' & H1 & H2 & H3 & H4). exists es', s'.
    replace (N.to_nat (t - i)) with (S (N.to_nat (t - (i + 1)))) by lia. cbn [nth_error]. repeat split; try assumption; lia.
Qed.

Lemma first_tier_none sizes : forall i rcd keyed len, first_tier sizes i rcd keyed len = None ->
  forall es s, In es sizes -> value_size es rcd keyed = Some s -> s < len.
Proof.
  induction sizes as [|e sizes IH]; intros i rcd keyed len H es s Hin Hv; [destruct Hin|].
  cbn [first_tier] in H. destruct Hin as [->|Hin].
  - rewrite Hv in H. destruct (N.leb_spec len s); [discriminate|assumption].
  - destruct (value_size e rcd keyed) as [s0|]; [destruct (len <=? s0); [discriminate|]|]; eapply IH; eassumption.
Qed.

(* the table of tiers is what the proofs assume: 255 strictly increasing sizes within bounds *)
Fixpoint increasing (l : list N) : bool :=
  match l with a :: ((b :: _) as rest) => (a <? b) && increasing rest | _ => true end.
Lemma sizes_ok :
  length column_sizes = 255%nat /\ increasing column_sizes = true /\
  forallb (fun es => (table_min_entry_size <=? es) && (es <=? table_max_entry_size)) column_sizes = true /\
  last column_sizes 0 = table_max_entry_size.
Proof. repeat split; vm_compute; reflexivity. Qed.

(* a value sent to the multipart tier is longer than one multipart slot can hold: it always needs
   at least two parts, so the reader's "first part must be a multi-head" test never rejects it *)
Theorem multipart_needs_two_parts rcd keyed len :
  select_tier rcd keyed len = N.of_nat (length column_sizes) ->
  table_multipart_entry_size - table_size_size < prefix_size rcd keyed + len.
Proof.
  unfold select_tier. destruct (first_tier column_sizes 0 rcd keyed len) as [t|] eqn:E.
  - intros H. exfalso. destruct (first_tier_fits _ _ _ _ _ _ E) as (es & s & Hn & _ & _ & _).
    assert (N.to_nat (t - 0) < length column_sizes)%nat by (apply nth_error_Some; rewrite Hn; discriminate). lia.
  - intros _. pose proof (first_tier_none _ _ _ _ _ E table_max_entry_size) as Hn.
    assert (Hin : In table_max_entry_size column_sizes).
    { destruct sizes_ok as (_ & _ & _ & Hl). rewrite <- Hl. apply (exists_last (l := column_sizes)) || idtac.
      clear. vm_compute. repeat (first [left; reflexivity | right]). }
    unfold prefix_size, table_multipart_entry_size, table_size_size, table_refs_size, table_partial_size.
    destruct rcd, keyed; cbn [value_size] in Hn;
      match type of Hn with forall s, _ -> ?v = Some s -> _ => let x := eval vm_compute in v in
        match x with Some ?s0 => specialize (Hn s0 Hin eq_refl) end end; lia.
Qed.

Theorem select_tier_fits rcd keyed len t : select_tier rcd keyed len = t -> t < N.of_nat (length column_sizes) ->
  exists s, value_size (tier_entry_size t) rcd keyed = Some s /\ len <= s.
Proof.
  unfold select_tier, tier_entry_size. destruct (first_tier column_sizes 0 rcd keyed len) as [t0|] eqn:E; intros <- Hlt; [|lia].
  destruct (first_tier_fits _ _ _ _ _ _ E) as (es & s & Hn & _ & Hv & Hl). rewrite N.sub_0_r in Hn.
  exists s. rewrite (nth_error_nth _ _ _ Hn). split; assumption.
Qed.
