(* The forward direction of the log codec: a record serialised by [serialize] (LogChange::flush_to_file)
   is parsed back by [parse_record] (LogReader + validate_plan) as exactly that record, whatever
   follows it in the file - so a complete record that reached the file is replayed. *)
From Coq Require Import NArith List Bool Lia Arith.
From PDB Require Import Gen.Consts Model.WalCodec Proofs.WalCodecProofs.
Import ListNotations.
Open Scope N_scope.

(* ---- little-endian fields ---- *)
Lemma le_length n x : length (le n x) = n.
Proof. revert x. induction n as [|n IH]; intros x; cbn [le length]; [reflexivity|]. rewrite IH. reflexivity. Qed.

Lemma unle_le n : forall x, x < 256 ^ N.of_nat n -> unle (le n x) = x.
Proof.
  induction n as [|n IH]; intros x Hx.
  - cbn in *. lia.
  - cbn [le unle]. rewrite IH.
    + pose proof (N.div_mod x 256 ltac:(lia)). lia.
    + rewrite Nat2N.inj_succ, N.pow_succ_r' in Hx. apply N.div_lt_upper_bound; lia.
Qed.

Lemma le_bytes n : forall x, Forall (fun b => b < 256) (le n x).
Proof.
  induction n as [|n IH]; intros x; cbn [le]; constructor; [apply N.mod_lt; lia|apply IH].
Qed.

Lemma firstn_app_exact {A} (a b : list A) n : length a = n -> firstn n (a ++ b) = a.
Proof. intros <-. rewrite firstn_app, Nat.sub_diag, firstn_O, app_nil_r. apply firstn_all. Qed.
Lemma skipn_app_exact {A} (a b : list A) n : length a = n -> skipn n (a ++ b) = b.
Proof. intros <-. rewrite skipn_app, Nat.sub_diag, skipn_all. reflexivity. Qed.

Lemma take_app n (a b : bytes) : length a = n -> take n (a ++ b) = Some (a, b).
Proof.
  intros H. unfold take. rewrite app_length. destruct (Nat.leb_spec n (length a + length b)); [|lia].
  rewrite firstn_app_exact, skipn_app_exact by exact H. reflexivity.
Qed.

(* ---- well-formed actions: what the writer can produce and the validator accepts ---- *)
Definition bytes_ok (l : bytes) : Prop := Forall (fun b => b < 256) l.

Definition wf_action (ncols : N) (a : action) : Prop :=
  match a with
  | AIndex t i m es => t < 65536 /\ t / 256 < ncols /\ i < 2 ^ (t mod 256) * index_validate_chunk_factor /\ i < 2 ^ 64 /\ m < 2 ^ 64 /\
                       length es = (popcount 64 m * 8)%nat
  | ARefc t i m es => t < 65536 /\ t / 256 < ncols /\ i < 2 ^ (t mod 256) * refcount_validate_chunk_factor /\ i < 2 ^ 64 /\ m < 2 ^ 64 /\
                      length es = (popcount 64 m * 16)%nat
  | AValue t i p => t < 65536 /\ t / 256 < ncols /\ i < 2 ^ 64 /\
                    (if i =? 0 then length p = 16%nat
                     else (2 <= length p)%nat /\ bytes_ok (firstn 2 p) /\
                          value_len t i (firstn 2 p) = Some (length p) /\
                          (unle (firstn 2 p) mod 32768 =? 32767) && negb (unle (firstn 2 p) =? 65535) = false)
  | ADropTable t | ADropRc t => t < 65536
  end.

Lemma pow256_2 : 256 ^ N.of_nat 2 = 65536. Proof. reflexivity. Qed.
Lemma pow256_8 : 256 ^ N.of_nat 8 = 2 ^ 64. Proof. reflexivity. Qed.
Lemma pow256_4 : 256 ^ N.of_nat 4 = 2 ^ 32. Proof. reflexivity. Qed.

Lemma header18 t i m rest :
  t < 65536 -> i < 2 ^ 64 -> m < 2 ^ 64 ->
  take 18 ((le 2 t ++ le 8 i ++ le 8 m) ++ rest) = Some (le 2 t ++ le 8 i ++ le 8 m, rest) /\
  unle (firstn 2 (le 2 t ++ le 8 i ++ le 8 m)) = t /\
  unle (firstn 8 (skipn 2 (le 2 t ++ le 8 i ++ le 8 m))) = i /\
  unle (skipn 10 (le 2 t ++ le 8 i ++ le 8 m)) = m.
Proof.
  intros Ht Hi Hm. split; [apply take_app; rewrite !app_length, !le_length; reflexivity|].
  rewrite firstn_app_exact by apply le_length.
  rewrite skipn_app_exact by apply le_length.
  rewrite firstn_app_exact by apply le_length.
  replace (skipn 10 (le 2 t ++ le 8 i ++ le 8 m)) with (le 8 m).
  2:{ rewrite app_assoc. rewrite skipn_app_exact; [reflexivity|rewrite app_length, !le_length; reflexivity]. }
  rewrite !unle_le; [repeat split| | |]; try (rewrite ?pow256_2, ?pow256_8; assumption).
Qed.

Lemma header10 t i rest :
  t < 65536 -> i < 2 ^ 64 ->
  take 10 ((le 2 t ++ le 8 i) ++ rest) = Some (le 2 t ++ le 8 i, rest) /\
  unle (firstn 2 (le 2 t ++ le 8 i)) = t /\ unle (skipn 2 (le 2 t ++ le 8 i)) = i.
Proof.
  intros Ht Hi. split; [apply take_app; rewrite !app_length, !le_length; reflexivity|].
  rewrite firstn_app_exact by apply le_length. rewrite skipn_app_exact by apply le_length.
  rewrite !unle_le; [split; reflexivity| |]; rewrite ?pow256_2, ?pow256_8; assumption.
Qed.

(* the opcodes are pairwise different (they come from the source) *)
Lemma opcodes_distinct :
  NoDup [log_begin_record; log_insert_index; log_insert_value; log_end_record; log_drop_table; log_insert_ref_count; log_drop_ref_count_table].
Proof.
  repeat (constructor; [cbn; intros H; repeat (destruct H as [H|H]; [discriminate H|]); exact H|]). constructor.
Qed.

Ltac op_eq := repeat match goal with
  | |- context [?a =? ?a] => rewrite (N.eqb_refl a)
  end.

Lemma parse_ser_action ncols a rest : wf_action ncols a -> parse_action ncols (ser_action a ++ rest) = AOk a rest.
Proof.
  destruct a as [t i m es|t i p|t i m es|t|t]; cbn [wf_action ser_action]; intros W.
  - destruct W as [Ht [Hc [Hi [Hi64 [Hm Hl]]]]].
    cbn [app parse_action].
    replace (log_insert_index =? log_end_record) with false by reflexivity.
    rewrite N.eqb_refl. cbn [orb].
    replace ((le 2 t ++ le 8 i ++ le 8 m ++ es) ++ rest) with ((le 2 t ++ le 8 i ++ le 8 m) ++ (es ++ rest)) by (rewrite <- !app_assoc; reflexivity).
    destruct (header18 t i m (es ++ rest) Ht Hi64 Hm) as [T [E1 [E2 E3]]]. rewrite T, E1, E2, E3.
    destruct (N.leb_spec ncols (t / 256)); [lia|]. cbn [andb].
    destruct (N.leb_spec (2 ^ (t mod 256) * index_validate_chunk_factor) i); [lia|].
    replace (log_insert_index =? log_insert_ref_count) with false by reflexivity. cbn [andb].
    rewrite take_app by exact Hl. reflexivity.
  - destruct W as [Ht [Hc [Hi64 Hp]]].
    cbn [app parse_action].
    replace (log_insert_value =? log_end_record) with false by reflexivity.
    replace ((log_insert_value =? log_insert_index) || (log_insert_value =? log_insert_ref_count)) with false by reflexivity.
    rewrite N.eqb_refl.
    replace ((le 2 t ++ le 8 i ++ p) ++ rest) with ((le 2 t ++ le 8 i) ++ (p ++ rest)) by (rewrite <- !app_assoc; reflexivity).
    destruct (header10 t i (p ++ rest) Ht Hi64) as [T [E1 E2]]. rewrite T, E1, E2.
    destruct (N.leb_spec ncols (t / 256)); [lia|].
    destruct (N.eqb_spec i 0) as [->|Hi0].
    + cbn [negb andb]. cbn [value_len N.eqb]. rewrite take_app by exact Hp. reflexivity.
    + destruct Hp as [H2 [Hb [Hv Hbad]]]. cbn [negb andb].
      assert (Hf : firstn 2 (p ++ rest) = firstn 2 p).
      { rewrite firstn_app. replace (2 - length p)%nat with O by lia. rewrite firstn_O, app_nil_r. reflexivity. }
      rewrite Hf. rewrite app_length. destruct (Nat.ltb_spec (length p + length rest) 2); [lia|].
      rewrite Hbad, Hv. rewrite take_app by reflexivity. reflexivity.
  - destruct W as [Ht [Hc [Hi [Hi64 [Hm Hl]]]]].
    cbn [app parse_action].
    replace (log_insert_ref_count =? log_end_record) with false by reflexivity.
    replace (log_insert_ref_count =? log_insert_index) with false by reflexivity.
    rewrite N.eqb_refl. cbn [orb].
    replace ((le 2 t ++ le 8 i ++ le 8 m ++ es) ++ rest) with ((le 2 t ++ le 8 i ++ le 8 m) ++ (es ++ rest)) by (rewrite <- !app_assoc; reflexivity).
    destruct (header18 t i m (es ++ rest) Ht Hi64 Hm) as [T [E1 [E2 E3]]]. rewrite T, E1, E2, E3.
    destruct (N.leb_spec ncols (t / 256)); [lia|]. cbn [andb].
    destruct (N.leb_spec (2 ^ (t mod 256) * refcount_validate_chunk_factor) i); [lia|]. cbn [andb].
    rewrite take_app by exact Hl. reflexivity.
  - cbn [app parse_action].
    replace (log_drop_table =? log_end_record) with false by reflexivity.
    replace ((log_drop_table =? log_insert_index) || (log_drop_table =? log_insert_ref_count)) with false by reflexivity.
    replace (log_drop_table =? log_insert_value) with false by reflexivity.
    rewrite N.eqb_refl. cbn [orb]. rewrite take_app by apply le_length.
    rewrite unle_le by (rewrite pow256_2; exact W). reflexivity.
  - cbn [app parse_action].
    replace (log_drop_ref_count_table =? log_end_record) with false by reflexivity.
    replace ((log_drop_ref_count_table =? log_insert_index) || (log_drop_ref_count_table =? log_insert_ref_count)) with false by reflexivity.
    replace (log_drop_ref_count_table =? log_insert_value) with false by reflexivity.
    replace (log_drop_ref_count_table =? log_drop_table) with false by reflexivity.
    rewrite N.eqb_refl. cbn [orb]. rewrite take_app by apply le_length.
    rewrite unle_le by (rewrite pow256_2; exact W). reflexivity.
Qed.

Lemma ser_action_nonempty a : (1 <= length (ser_action a))%nat.
Proof. destruct a; cbn; lia. Qed.

Lemma parse_ser_actions ncols acts : forall fuel acc rest,
  Forall (wf_action ncols) acts -> (length acts < fuel)%nat ->
  parse_actions ncols fuel (flat_map ser_action acts ++ log_end_record :: rest) acc = Some (Some (rev acc ++ acts, rest)).
Proof.
  induction acts as [|a acts IH]; intros fuel acc rest Hw Hf.
  - destruct fuel as [|f]; [cbn in Hf; lia|]. cbn [flat_map app parse_actions parse_action]. rewrite N.eqb_refl.
    rewrite app_nil_r. reflexivity.
  - destruct fuel as [|f]; [cbn in Hf; lia|]. inversion Hw as [|x l Ha Hl]; subst.
    cbn [flat_map parse_actions]. rewrite <- app_assoc. rewrite (parse_ser_action ncols a _ Ha).
    rewrite IH; [|exact Hl|cbn in Hf; lia]. cbn [rev]. rewrite <- app_assoc. reflexivity.
Qed.

Lemma flat_map_len acts : (length acts <= length (flat_map ser_action acts))%nat.
Proof.
  induction acts as [|a acts IH]; [cbn; lia|]. cbn [flat_map length]. rewrite app_length.
  pose proof (ser_action_nonempty a). lia.
Qed.

(* ---- the checksum fits its four bytes ---- *)
Lemma lxor_lt a b n : a < 2 ^ n -> b < 2 ^ n -> N.lxor a b < 2 ^ n.
Proof.
  intros Ha Hb. destruct (N.eq_dec (N.lxor a b) 0) as [E|E]; [rewrite E; apply N.lt_le_trans with (2 ^ 0); [cbn; lia|apply N.pow_le_mono_r; lia]|].
  apply N.log2_lt_pow2; [lia|]. eapply N.le_lt_trans; [apply N.log2_lxor|].
  apply N.max_lub_lt.
  - destruct (N.eq_dec a 0) as [->|Ha0]; [cbn; destruct n; [exfalso; apply E; cbn in *; assert (b = 0) by lia; subst; reflexivity|lia]|apply N.log2_lt_pow2; lia].
  - destruct (N.eq_dec b 0) as [->|Hb0]; [cbn; destruct n; [exfalso; apply E; cbn in *; assert (a = 0) by lia; subst; reflexivity|lia]|apply N.log2_lt_pow2; lia].
Qed.

Lemma shiftr1_lt c : c < 2 ^ 32 -> N.shiftr c 1 < 2 ^ 32.
Proof. intros H. rewrite N.shiftr_div_pow2. change (2 ^ 1) with 2. apply N.div_lt_upper_bound; lia. Qed.

Lemma crc_bits_lt n : forall c, c < 2 ^ 32 -> crc_bits n c < 2 ^ 32.
Proof.
  induction n as [|n IH]; intros c Hc; cbn [crc_bits]; [exact Hc|]. apply IH.
  destruct (N.testbit c 0); [apply lxor_lt; [apply shiftr1_lt; exact Hc|reflexivity]|apply shiftr1_lt; exact Hc].
Qed.

Lemma crc_fold_lt bs : forall c, bytes_ok bs -> c < 2 ^ 32 -> fold_left crc_byte bs c < 2 ^ 32.
Proof.
  induction bs as [|b bs IH]; intros c Hb Hc; [exact Hc|]. inversion Hb as [|x l Hx Hl]; subst. cbn [fold_left].
  apply IH; [exact Hl|]. unfold crc_byte. apply crc_bits_lt. apply lxor_lt; [exact Hc|]. apply N.lt_trans with 256; [exact Hx|reflexivity].
Qed.

Lemma crc32_lt bs : bytes_ok bs -> crc32 bs < 2 ^ 32.
Proof. intros H. unfold crc32. apply lxor_lt; [apply crc_fold_lt; [exact H|reflexivity]|reflexivity]. Qed.

(* ---- bytes of a serialised record ---- *)
Definition payload_ok (a : action) : Prop :=
  match a with AIndex _ _ _ es | ARefc _ _ _ es => bytes_ok es | AValue _ _ p => bytes_ok p | _ => True end.

Lemma ser_action_bytes a : payload_ok a -> bytes_ok (ser_action a).
Proof.
  unfold bytes_ok. destruct a as [t i m es|t i p|t i m es|t|t]; cbn [payload_ok ser_action]; intros H;
  (constructor; [reflexivity|]); repeat (apply Forall_app; split); try apply le_bytes; try exact H.
Qed.

Lemma ser_body_bytes id acts : Forall payload_ok acts -> bytes_ok (ser_body id acts).
Proof.
  intros H. unfold ser_body, bytes_ok. constructor; [reflexivity|]. apply Forall_app. split; [apply le_bytes|].
  apply Forall_app. split; [|constructor; [reflexivity|constructor]].
  induction acts as [|a acts IH]; [constructor|]. inversion H; subst. cbn [flat_map]. apply Forall_app. split; [apply ser_action_bytes; assumption|apply IH; assumption].
Qed.

(* ---- the theorem ---- *)
Theorem parse_serialize ncols id acts tail :
  id < 2 ^ 64 -> Forall (wf_action ncols) acts -> Forall payload_ok acts ->
  parse_record ncols (serialize id acts ++ tail) = PRecord id acts (length (serialize id acts)).
Proof.
  intros Hid Hw Hp. unfold serialize. set (body := ser_body id acts).
  assert (Hbody : body = log_begin_record :: le 8 id ++ flat_map ser_action acts ++ [log_end_record]) by reflexivity.
  unfold parse_record. rewrite Hbody at 1. cbn [app]. rewrite N.eqb_refl. cbn [negb].
  rewrite <- !app_assoc. rewrite take_app by apply le_length.
  set (r1 := flat_map ser_action acts ++ [log_end_record] ++ le 4 (crc32 body) ++ tail).
  assert (Er1 : r1 = flat_map ser_action acts ++ log_end_record :: (le 4 (crc32 body) ++ tail)) by reflexivity.
  rewrite Er1 at 2. rewrite (parse_ser_actions ncols acts (S (length r1)) [] _ Hw).
  2:{ unfold r1. rewrite app_length. pose proof (flat_map_len acts). lia. }
  cbn [rev app]. rewrite take_app by apply le_length.
  (* the checksum *)
  replace (length (body ++ le 4 (crc32 body) ++ tail) - length (le 4 (crc32 body) ++ tail))%nat with (length body)
    by (rewrite app_length; lia).
  rewrite firstn_app_exact by reflexivity.
  rewrite unle_le by (rewrite pow256_4; apply crc32_lt; apply ser_body_bytes; exact Hp).
  rewrite N.eqb_refl. rewrite unle_le by (rewrite pow256_8; exact Hid).
  f_equal. rewrite app_length, le_length. reflexivity.
Qed.

(* a record that is cut anywhere before its end is no record: it is "end of file", never applied
   and never taken for damage - stated for the cut inside the checksum, the case the replay meets
   when the last append was torn after the body was complete *)
Theorem torn_checksum_is_eof ncols id acts n :
  id < 2 ^ 64 -> Forall (wf_action ncols) acts -> (n < 4)%nat ->
  parse_record ncols (ser_body id acts ++ firstn n (le 4 (crc32 (ser_body id acts)))) = PCut id.
Proof.
  intros Hid Hw Hn. set (body := ser_body id acts).
  assert (Hbody : body = log_begin_record :: le 8 id ++ flat_map ser_action acts ++ [log_end_record]) by reflexivity.
  unfold parse_record. rewrite Hbody at 1. cbn [app]. rewrite N.eqb_refl. cbn [negb].
  rewrite <- !app_assoc. rewrite take_app by apply le_length.
  set (c := firstn n (le 4 (crc32 body))).
  set (r1 := flat_map ser_action acts ++ [log_end_record] ++ c).
  assert (Er1 : r1 = flat_map ser_action acts ++ log_end_record :: c) by reflexivity.
  rewrite Er1 at 2. rewrite (parse_ser_actions ncols acts (S (length r1)) [] _ Hw).
  2:{ unfold r1. rewrite app_length. pose proof (flat_map_len acts). lia. }
  cbn [rev app]. unfold take. assert (Hc : (length c < 4)%nat) by (unfold c; rewrite firstn_length, le_length; lia).
  destruct (Nat.leb_spec 4 (length c)); [lia|]. rewrite unle_le by (rewrite pow256_8; exact Hid). reflexivity.
Qed.

(* ---- a torn record is never applied ----
   Parsing that succeeded does not change when bytes are appended; hence if any strict prefix of a
   serialised record were accepted as a record, the whole record would be accepted with that shorter
   length - but it is accepted with its full length. *)
Lemma take_ext n b x y z : take n b = Some (x, y) -> take n (b ++ z) = Some (x, y ++ z).
Proof.
  intros H. apply take_spec in H. destruct H as [-> Hl]. rewrite <- app_assoc. apply take_app. exact Hl.
Qed.

Lemma firstn2_ext (r z : bytes) : (2 <= length r)%nat -> firstn 2 (r ++ z) = firstn 2 r.
Proof. intros H. rewrite firstn_app. replace (2 - length r)%nat with O by lia. rewrite firstn_O, app_nil_r. reflexivity. Qed.

Lemma parse_action_ext ncols b a r z : parse_action ncols b = AOk a r -> parse_action ncols (b ++ z) = AOk a (r ++ z).
Proof.
  unfold parse_action. destruct b as [|op b]; [discriminate|]. cbn [app].
  destruct (op =? log_end_record); [discriminate|].
  destruct ((op =? log_insert_index) || (op =? log_insert_ref_count)).
  { destruct (take 18 b) as [[h r1]|] eqn:T1; [|discriminate]. rewrite (take_ext _ _ _ _ z T1).
    destruct (ncols <=? _); [discriminate|].
    destruct ((op =? log_insert_index) && _); [discriminate|].
    destruct ((op =? log_insert_ref_count) && _); [discriminate|].
    destruct (take _ r1) as [[es r2]|] eqn:T2; [|discriminate]. rewrite (take_ext _ _ _ _ z T2).
    intros E. injection E as <- <-. reflexivity. }
  destruct (op =? log_insert_value).
  { destruct (take 10 b) as [[h r1]|] eqn:T1; [|discriminate]. rewrite (take_ext _ _ _ _ z T1).
    destruct (ncols <=? _); [discriminate|].
    destruct (N.eqb_spec (unle (skipn 2 h)) 0) as [E0|E0]; cbn [negb andb].
    - destruct (value_len _ _ _) as [n|]; [|discriminate].
      destruct (take n r1) as [[p r2]|] eqn:T2; [|discriminate]. rewrite (take_ext _ _ _ _ z T2).
      intros E. injection E as <- <-. reflexivity.
    - destruct (Nat.ltb_spec (length r1) 2) as [Hl|Hl]; [discriminate|].
      rewrite app_length. destruct (Nat.ltb_spec (length r1 + length z) 2); [lia|].
      rewrite (firstn2_ext r1 z Hl).
      destruct ((unle (firstn 2 r1) mod 32768 =? 32767) && negb (unle (firstn 2 r1) =? 65535)); [discriminate|].
      destruct (value_len _ _ _) as [n|]; [|discriminate].
      destruct (take n r1) as [[p r2]|] eqn:T2; [|discriminate]. rewrite (take_ext _ _ _ _ z T2).
      intros E. injection E as <- <-. reflexivity. }
  destruct ((op =? log_drop_table) || (op =? log_drop_ref_count_table)); [|destruct (op =? log_begin_record); discriminate].
  destruct (take 2 b) as [[h r1]|] eqn:T1; [|discriminate]. rewrite (take_ext _ _ _ _ z T1).
  intros E. injection E as <- <-. reflexivity.
Qed.

Lemma parse_action_end_ext ncols b r z : parse_action ncols b = AEnd r -> parse_action ncols (b ++ z) = AEnd (r ++ z).
Proof.
  intros H. apply parse_action_end in H. subst b. cbn [app parse_action]. rewrite N.eqb_refl. reflexivity.
Qed.

Lemma parse_actions_ext ncols z : forall fuel b acc acts r,
  parse_actions ncols fuel b acc = Some (Some (acts, r)) ->
  forall fuel', (fuel <= fuel')%nat -> parse_actions ncols fuel' (b ++ z) acc = Some (Some (acts, r ++ z)).
Proof.
  induction fuel as [|f IH]; intros b acc acts r H fuel' Hf; cbn [parse_actions] in H; [discriminate|].
  destruct fuel' as [|f']; [lia|]. cbn [parse_actions].
  destruct (parse_action ncols b) as [a r1|r1| |] eqn:E; try discriminate.
  - rewrite (parse_action_ext _ _ _ _ z E). apply (IH _ _ _ _ H). lia.
  - rewrite (parse_action_end_ext _ _ _ z E). injection H as <- <-. reflexivity.
Qed.

Lemma parse_record_ext ncols b z id acts len :
  parse_record ncols b = PRecord id acts len -> parse_record ncols (b ++ z) = PRecord id acts len.
Proof.
  intros H. assert (Hs := H). apply parse_record_spec in Hs. destruct Hs as [blen [-> [H9 [Hle _]]]].
  unfold parse_record in *. destruct b as [|op b]; [discriminate|]. cbn [app].
  destruct (negb (op =? log_begin_record)); [repeat match goal with H : context [if ?c then _ else _] |- _ => destruct c end; discriminate|].
  destruct (take 8 b) as [[idb r1]|] eqn:T1; [|discriminate]. rewrite (take_ext _ _ _ _ z T1).
  destruct (parse_actions ncols (S (length r1)) r1 []) as [[[a r2]|]|] eqn:PA; try discriminate.
  rewrite (parse_actions_ext ncols z _ _ _ _ _ PA (S (length (r1 ++ z)))) by (rewrite app_length; lia).
  destruct (take 4 r2) as [[c r3]|] eqn:T2; [|discriminate]. rewrite (take_ext _ _ _ _ z T2).
  (* the consumed length is the same *)
  assert (Hsuf : exists pre, op :: b = pre ++ r2).
  { apply take_spec in T1. destruct T1 as [-> _]. apply parse_actions_ok in PA. destruct PA as [pre ->].
    exists (op :: idb ++ pre ++ [log_end_record]). cbn [app]. rewrite <- !app_assoc. reflexivity. }
  destruct Hsuf as [pre Hpre].
  assert (L1 : (length (op :: b) - length r2 = length pre)%nat) by (rewrite Hpre, app_length; lia).
  assert (L2 : (length (op :: b ++ z) - length (r2 ++ z) = length pre)%nat).
  { change (op :: b ++ z) with ((op :: b) ++ z). rewrite Hpre, !app_length. lia. }
  rewrite L1 in H. rewrite L2.
  assert (F : firstn (length pre) (op :: b ++ z) = firstn (length pre) (op :: b)).
  { change (op :: b ++ z) with ((op :: b) ++ z). rewrite Hpre, <- app_assoc.
    rewrite !firstn_app_exact by reflexivity. reflexivity. }
  rewrite F. exact H.
Qed.

Definition plen (r : pres) : nat := match r with PRecord _ _ l => l | _ => O end.

Theorem torn_record_never_applied ncols id acts n id' acts' len' :
  id < 2 ^ 64 -> Forall (wf_action ncols) acts -> Forall payload_ok acts ->
  (n < length (serialize id acts))%nat ->
  parse_record ncols (firstn n (serialize id acts)) <> PRecord id' acts' len'.
Proof.
  intros Hid Hw Hp Hn H.
  assert (Hs := H). apply parse_record_spec in Hs. destruct Hs as [blen [-> [_ [Hle _]]]].
  rewrite firstn_length in Hle.
  pose proof (parse_record_ext ncols _ (skipn n (serialize id acts)) _ _ _ H) as Hx.
  rewrite firstn_skipn in Hx.
  pose proof (parse_serialize ncols id acts [] Hid Hw Hp) as Hf. rewrite app_nil_r in Hf.
  rewrite Hf in Hx. apply (f_equal plen) in Hx. cbn [plen] in Hx.
  assert (blen + 4 <= n)%nat by (eapply Nat.le_trans; [exact Hle|apply Nat.le_min_l]). lia.
Qed.
