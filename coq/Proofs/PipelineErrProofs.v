From Coq Require Import NArith List Bool.
From PDB Require Import Model.Pipeline Model.PipelineSpec Model.PipelineErr Proofs.PipelineRc Proofs.PipelineTop.
Import ListNotations.
Open Scope N_scope.

Lemma get_fail s c k : get (fail s) c k = get s c k.
Proof. reflexivity. Qed.
Lemma get_size_fail s c k : get_size (fail s) c k = get_size s c k.
Proof. reflexivity. Qed.

(* once a stage has failed every commit is refused with the background error and changes nothing *)
Theorem commits_after_fail cfg s txs : bg_err s = true -> commits_after cfg s txs = (s, map (fun _ => 3) txs).
Proof.
  intros H. induction txs as [|t txs IH]; [reflexivity|].
  cbn [commits_after map]. rewrite (bg_error_refusal cfg s t H), IH. reflexivity.
Qed.

Section WithCfg.
Variable cfg : list ccfg.
Variable f : loc -> val.

(* reads after the failure, and after any number of further commit attempts, are the reads the
   property prescribes for the transactions accepted before the failure *)
Theorem reads_survive_failure steps txs c k :
  Forall (step_pre cfg f) steps -> c_rc (cfg_of cfg c) = false ->
  let s := fst (commits_after cfg (fail (run cfg init steps)) txs) in
  get s c k = spec_txs (fun _ => None) (accepted cfg steps) (c, k)
  /\ get_size s c k = option_map vlen (spec_txs (fun _ => None) (accepted cfg steps) (c, k))
  /\ snd (commits_after cfg (fail (run cfg init steps)) txs) = map (fun _ => 3) txs.
Proof.
  intros Hpre Hrc. cbn zeta. rewrite (commits_after_fail cfg (fail (run cfg init steps)) txs eq_refl). cbn [fst snd].
  rewrite get_fail, get_size_fail. destruct (reads_are_spec cfg f steps c k Hpre Hrc) as [G S]. repeat split; assumption.
Qed.
End WithCfg.
