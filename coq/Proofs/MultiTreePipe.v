(* C10, the forest invariant with the commit pipeline in play: transactions of one operation are made at any
   moment (they are queued with their new nodes in the commit overlay) and processed later, in order, any number
   of them waiting. No reader lock is held (deferral - known finding F4 - stays out). As long as every commit,
   when its turn comes, finds what its author saw (an insertion: its root key free and the existing children it
   names stored; a dereference: the root it read when it was made), the stored forest keeps the invariant of
   MultiTreeForest.v after every processing step. *)
From Coq Require Import NArith List Bool Lia Arith.
From PDB Require Import Model.MultiTree Proofs.MultiTreeProofs Proofs.MultiTreeReadback Proofs.MultiTreeForest.
Import ListNotations.
Open Scope N_scope.

(* ---- the overlay is not touched by applying items, and cleaning it for one commit leaves the others' entries ---- *)
Lemma deref_aov : forall f s l, aov (deref_children f s l) = aov s.
Proof.
  induction f as [|f IH]; intros s l; cbn [deref_children]; [reflexivity|]. destruct l as [|id rest]; [reflexivity|].
  cbv zeta. rewrite IH. destruct (alook (nrc s) id) as [c|]; [destruct (2 <? c); reflexivity|].
  destruct (get_node s id); [rewrite IH|]; reflexivity.
Qed.
Lemma apply_aov cf fuel s it : aov (apply_item cf fuel s it) = aov s.
Proof.
  destruct it; cbn [apply_item]; try reflexivity.
  - destruct (alook (roots s) k) as [[n0 c]|]; [destruct (m_rc cf)|]; reflexivity.
  - destruct (alook (roots s) k) as [[n0 c]|]; [destruct (m_rc cf)|]; reflexivity.
  - destruct (alook (nrc s) id); reflexivity.
  - destruct (alook (roots s) k) as [[n0 c]|]; [|reflexivity]. destruct (m_rc cf && (1 <? c)); [reflexivity|]. rewrite deref_aov. reflexivity.
Qed.
Lemma fold_apply_aov_all cf fuel items : forall s, aov (fold_left (apply_item cf fuel) items s) = aov s.
Proof. induction items as [|it items IH]; intros s; [reflexivity|]. cbn [fold_left]. rewrite IH. apply apply_aov. Qed.

Lemma deref_mcid : forall f s l, mcid (deref_children f s l) = mcid s.
Proof.
  induction f as [|f IH]; intros s l; cbn [deref_children]; [reflexivity|]. destruct l as [|id rest]; [reflexivity|].
  cbv zeta. rewrite IH. destruct (alook (nrc s) id) as [c|]; [destruct (2 <? c); reflexivity|].
  destruct (get_node s id); [rewrite IH|]; reflexivity.
Qed.
Lemma apply_mcid cf fuel s it : mcid (apply_item cf fuel s it) = mcid s.
Proof.
  destruct it; cbn [apply_item]; try reflexivity.
  - destruct (alook (roots s) k) as [[n0 c]|]; [destruct (m_rc cf)|]; reflexivity.
  - destruct (alook (roots s) k) as [[n0 c]|]; [destruct (m_rc cf)|]; reflexivity.
  - destruct (alook (nrc s) id); reflexivity.
  - destruct (alook (roots s) k) as [[n0 c]|]; [|reflexivity]. destruct (m_rc cf && (1 <? c)); [reflexivity|]. rewrite deref_mcid. reflexivity.
Qed.
Lemma fold_apply_mcid cf fuel items : forall s, mcid (fold_left (apply_item cf fuel) items s) = mcid s.
Proof. induction items as [|it items IH]; intros s; [reflexivity|]. cbn [fold_left]. rewrite IH. apply apply_mcid. Qed.
Lemma clean_ov_mcid cid items : forall s, mcid (clean_ov cid items s) = mcid s.
Proof. induction items as [|it items IH]; intros s; [reflexivity|]. cbn [clean_ov]. rewrite IH. destruct it; reflexivity. Qed.
Lemma to_overlay_mcid cf cid items : forall s, mcid (to_overlay cf cid items s) = mcid s.
Proof. induction items as [|it items IH]; intros s; [reflexivity|]. cbn [to_overlay]. rewrite IH. destruct it; reflexivity. Qed.

Lemma clean_ov_aov_other cid items : forall s id, (forall n, ~ In (id, n) (nv items)) -> alook (aov (clean_ov cid items s)) id = alook (aov s) id.
Proof.
  induction items as [|it items IH]; intros s id Hni; [reflexivity|]. cbn [clean_ov].
  assert (Hni' : forall n, ~ In (id, n) (nv items)).
  { intros n H. apply (Hni n). change (it :: items) with ([it] ++ items). rewrite nv_app. apply in_or_app. right. exact H. }
  rewrite IH by exact Hni'. destruct it; cbn [aov]; try reflexivity.
  unfold drop_tag. destruct (alook (aov s) id0) as [[i x]|]; [|reflexivity]. destruct (i =? cid); [|reflexivity].
  apply alook_adel_neq. intros ->. apply (Hni n). cbn. left. reflexivity.
Qed.

(* ---- what is queued ---- *)
Definition newids (c : mcommit) : list nid := map fst (nv (mc_items c)).
Inductive ckind (c : mcommit) : Prop :=
| ck_insert k root items : mc_items c = MRootSet k root :: items -> mc_check c = false ->
    Forall node_item items -> citems (n_children root) items -> NoDup (map fst (nv items)) -> ckind c
| ck_ref k : mc_items c = [MRootRef k] -> mc_check c = false -> ckind c
| ck_deref k cs : mc_items c = [MDerefChildren k cs] -> mc_check c = true -> ckind c.
Definition qids (q : list mcommit) : list nid := concat (map newids q).

Record PInv (s : mstate) : Prop := {
  p_J : J s [];
  p_bound : forall id, In id (map fst (nodes s)) -> id < next_id s;
  p_kind : Forall (fun c => ckind c /\ mc_id c <= mcid s /\ (forall id, In id (newids c) -> id < next_id s)) (mqueue s);
  p_fresh : NoDup (map fst (nodes s) ++ qids (mqueue s));
  p_aov : forall id, In id (map fst (aov s)) -> In id (qids (mqueue s));
  p_tag : forall c id n, In c (mqueue s) -> In (id, n) (nv (mc_items c)) -> exists x, alook (aov s) id = Some (mc_id c, x)
}.

Lemma PInv_ovfree s : PInv s -> ovfree s.
Proof.
  intros P id Hid. destruct (alook (aov s) id) as [x|] eqn:E; [|reflexivity]. exfalso.
  apply alook_in_ids in E. apply (p_aov s P) in E. destruct (nodup_app_inv _ _ (p_fresh s P)) as (_ & _ & Hdis). exact (Hdis id Hid E).
Qed.

(* what a commit has to find when its turn comes *)
Definition head_ok (s : mstate) (c : mcommit) : Prop :=
  match mc_items c with
  | MRootSet k root :: items => alook (roots s) k = None /\ (forall i, In (MIncRef i) items -> In i (map fst (nodes s)))
  | [MDerefChildren k cs] => match alook (roots s) k with Some (r, _) => n_children r = cs | None => True end
  | _ => True
  end.

Lemma existsb_all_false {A} (f : A -> bool) l : (forall x, In x l -> f x = false) -> existsb f l = false.
Proof. induction l as [|a l IH]; intros H; [reflexivity|]. cbn [existsb]. rewrite (H a (or_introl eq_refl)), IH; [reflexivity|]. intros x Hx. apply H. right. exact Hx. Qed.
Lemma nodup_app_intro {A} (a b : list A) : NoDup a -> NoDup b -> (forall x, In x a -> In x b -> False) -> NoDup (a ++ b).
Proof.
  induction a as [|y a IH]; intros Ha Hb Hd; cbn [app]; [exact Hb|]. inversion Ha as [|? ? Hy Hl]; subst. constructor.
  - intros Hin. apply in_app_or in Hin as [Hin|Hin]; [exact (Hy Hin)|exact (Hd y (or_introl eq_refl) Hin)].
  - apply IH; [exact Hl|exact Hb|]. intros x Hx. apply Hd. right. exact Hx.
Qed.

(* the head of the queue is applied when nothing makes it wait *)
Lemma mprocess_nodefer cf s c rest :
  mqueue s = c :: rest -> must_defer s c rest = false ->
  exists fuel s0,
    (s0 = s \/ (store_eq s0 s /\ rov s0 = rov s /\ aov s0 = aov s /\ locked s0 = locked s /\ next_id s0 = next_id s /\ mcid s0 = mcid s)) /\
    (weight (nodes s0) + fold_right (fun it a => (match it with MDerefChildren _ cs => 1 + length cs | _ => 0 end + a)%nat) O (mc_items c) <= fuel)%nat /\
    mprocess cf s = clean_ov (mc_id c) (mc_items c) (fold_left (apply_item cf fuel) (mc_items c) (with_queue s0 rest)).
Proof.
  intros Hq Hd. unfold mprocess. rewrite Hq.
  rewrite Hd.
  set (s0 := if mc_check c then fold_left dec_to_deref (deref_keys (mc_items c)) s else s).
  eexists. exists s0. split; [|split; [|reflexivity]].
  - unfold s0. destruct (mc_check c); [|left; reflexivity]. right.
    assert (Hmc : forall s1 k, mcid (dec_to_deref s1 k) = mcid s1) by (intros s1 k; unfold dec_to_deref; destruct (alook (to_deref s1) k); reflexivity).
    assert (G : forall ks s1, let s2 := fold_left dec_to_deref ks s1 in store_eq s2 s1 /\ rov s2 = rov s1 /\ aov s2 = aov s1 /\ locked s2 = locked s1 /\ next_id s2 = next_id s1 /\ mcid s2 = mcid s1).
    { induction ks as [|k ks IH]; intros s1; cbn [fold_left]; [unfold store_eq; repeat split; reflexivity|].
      destruct (IH (dec_to_deref s1 k)) as (A & B & C & D & E & M). destruct (dec_to_deref_frame s1 k) as (A1 & B1 & C1 & D1 & E1 & _). cbv zeta in *. specialize (Hmc s1 k).
      split; [eapply store_eq_trans; eassumption|]. repeat split; congruence. }
    exact (G _ s).
  - pose proof (weight_le (nodes s0)). lia.
Qed.

Lemma process_frame cf fuel cid items B :
  let S2 := fold_left (apply_item cf fuel) items B in let F := clean_ov cid items S2 in
  store_eq F S2 /\ mqueue F = mqueue B /\ mcid F = mcid B /\ next_id F = next_id B /\
  (forall id, In id (map fst (aov F)) -> In id (map fst (aov B))) /\
  (forall id, (forall n, ~ In (id, n) (nv items)) -> alook (aov F) id = alook (aov B) id).
Proof.
  cbv zeta. set (S2 := fold_left (apply_item cf fuel) items B).
  destruct (clean_ov_ctl cid items S2) as [A1 A2]. destruct (fold_apply_ctl cf fuel items B) as (B1 & B2 & _). cbv zeta in B1, B2. fold S2 in B1, B2.
  split; [apply clean_ov_store|]. split; [rewrite clean_ov_queue; unfold S2; apply fold_apply_queue|]. split; [rewrite clean_ov_mcid; unfold S2; apply fold_apply_mcid|]. split; [congruence|]. split.
  - intros id H. apply clean_ov_aov_keys in H. unfold S2 in H. rewrite fold_apply_aov_all in H. exact H.
  - intros id H. rewrite clean_ov_aov_other by exact H. unfold S2. rewrite fold_apply_aov_all. reflexivity.
Qed.

Lemma rootref_nodes cf fuel s k : nodes (apply_item cf fuel s (MRootRef k)) = nodes s.
Proof. cbn [apply_item]. destruct (alook (roots s) k) as [[n0 c]|]; [destruct (m_rc cf)|]; reflexivity. Qed.

Lemma in_qids c q id : In c q -> In id (newids c) -> In id (qids q).
Proof. intros Hc Hid. unfold qids. apply in_concat. exists (newids c). split; [apply in_map; exact Hc|exact Hid]. Qed.

Theorem process_keeps cf s c rest : PInv s -> mqueue s = c :: rest -> must_defer s c rest = false -> head_ok s c -> PInv (mprocess cf s).
Proof.
  intros P Hq Hdef Hok. pose proof P as [PJ Pb Pk Pf Pa Pt]. rewrite Hq in Pk, Pf, Pa. inversion Pk as [|? ? [Hkind [Hcid Hnew]] Pk']; subst.
  destruct (mprocess_nodefer cf s c rest Hq Hdef) as (fuel & s0 & Hs0 & Hfuel & Hm). rewrite Hm. clear Hm.
  assert (Hs0' : store_eq s0 s /\ aov s0 = aov s /\ locked s0 = locked s /\ next_id s0 = next_id s /\ mcid s0 = mcid s).
  { destruct Hs0 as [->|(A & _ & B & C & D & E)]; [unfold store_eq; repeat split; reflexivity|split; [exact A|split; [exact B|split; [exact C|split; [exact D|exact E]]]]]. }
  clear Hs0. destruct Hs0' as (Hst & Hav & Hlk & Hni & Hmc).
  set (B := with_queue s0 rest).
  assert (HsB : store_eq s B) by (apply store_eq_sym; unfold B, with_queue, store_eq in *; cbn [roots nodes nrc kv]; exact Hst).
  assert (HaB : aov B = aov s) by (unfold B, with_queue; cbn [aov]; exact Hav).
  assert (HqB : mqueue B = rest) by reflexivity.
  assert (HmB : mcid B = mcid s) by (unfold B, with_queue; cbn [mcid]; exact Hmc).
  assert (HiB : next_id B = next_id s) by (unfold B, with_queue; cbn [next_id]; exact Hni).
  assert (HJB : J B []) by (eapply J_store_eq; [exact HsB|exact PJ]).
  assert (HnB : nodes B = nodes s) by (destruct HsB as (_ & Hn & _); symmetry; exact Hn).
  assert (HrB : roots B = roots s) by (destruct HsB as (Hr & _); symmetry; exact Hr).
  destruct (process_frame cf fuel (mc_id c) (mc_items c) B) as (F1 & F2 & F3 & F4 & F5 & F6). cbv zeta in *.
  set (S2 := fold_left (apply_item cf fuel) (mc_items c) B) in *. set (F := clean_ov (mc_id c) (mc_items c) S2) in *.
  (* the head commit: what it does to the stored forest *)
  assert (Hcore : J S2 [] /\ (forall x, In x (map fst (nodes S2)) -> In x (newids c) \/ In x (map fst (nodes s))) /\ NoDup (newids c)).
  { unfold head_ok in Hok. destruct Hkind as [k root items Hit Hck Hki Hsh Hnd|k Hit Hck|k cs Hit Hck]; unfold S2, newids; rewrite Hit in *.
    - destruct Hok as [Hk Hex].
      assert (Hins : ins_ok B items).
      { split; [exact Hnd|]. split.
        - intros id Hid Hin. rewrite HnB in Hin. destruct (nodup_app_inv _ _ Pf) as (_ & _ & Hdis). apply (Hdis id Hin). unfold qids. cbn [map concat]. apply in_or_app. left. unfold newids. rewrite Hit. exact Hid.
        - intros i Hi. rewrite HnB. exact (Hex i Hi). }
      destruct (insert_J_items cf fuel B k root items HJB ltac:(rewrite HrB; exact Hk) Hki Hsh Hins) as [G1 G2]. cbv zeta in G1, G2.
      split; [exact G1|]. split; [|exact Hnd]. intros x Hx. apply G2 in Hx. rewrite HnB in Hx. exact Hx.
    - cbn [fold_left nv flat_map map]. split; [apply rootref_J; exact HJB|]. split; [|constructor]. intros x Hx. rewrite rootref_nodes, HnB in Hx. right. exact Hx.
    - cbn [fold_left nv flat_map map]. split; [|split; [|constructor]].
      + destruct (alook (roots B) k) as [[r cnt0]|] eqn:Ek.
        * rewrite HrB, Ek in *. rewrite <- Hok.
          assert (HoB : ovfree B). { intros i Hi. rewrite HaB. rewrite HnB in Hi. exact (PInv_ovfree s P i Hi). }
          refine (proj1 (deref_root_J cf fuel B k r cnt0 HJB HoB ltac:(rewrite HrB; exact Ek) _)).
          cbn [fold_right] in Hfuel. rewrite Hok. destruct Hst as (_ & Hn0 & _). rewrite HnB, <- Hn0. lia.
        * cbn [apply_item]. rewrite Ek. exact HJB.
      + intros x Hx. apply apply_deref_nodes_sub in Hx. rewrite HnB in Hx. right. exact Hx. }
  destruct Hcore as (HJ2 & Hsub & Hndc).
  destruct (nodup_app_inv _ _ Pf) as (Hnn & Hnq & Hdis). unfold qids in Hnq, Hdis. cbn [map concat] in Hnq, Hdis. fold (qids rest) in Hnq, Hdis.
  destruct (nodup_app_inv _ _ Hnq) as (_ & Hnr & Hdis2).
  assert (HnF : nodes F = nodes S2) by (destruct F1 as (_ & Hn & _); exact Hn).
  constructor.
  - eapply J_store_eq; [apply store_eq_sym; exact F1|exact HJ2].
  - intros id Hid. rewrite HnF in Hid. rewrite F4, HiB. destruct (Hsub id Hid) as [H|H]; [exact (Hnew id H)|exact (Pb id H)].
  - rewrite F2, HqB. rewrite Forall_forall in *. intros c' Hc'. destruct (Pk' c' Hc') as (A & B0 & C). split; [exact A|]. split; [rewrite F3, HmB; exact B0|]. rewrite F4, HiB. exact C.
  - rewrite F2, HqB, HnF. apply nodup_app_intro; [exact (j_nodup S2 [] HJ2)|exact Hnr|].
    intros x Hx Hr. destruct (Hsub x Hx) as [H|H]; [exact (Hdis2 x H Hr)|]. apply (Hdis x H). apply in_or_app. right. exact Hr.
  - rewrite F2, HqB. intros id Hid. pose proof Hid as Hid0. apply F5 in Hid. rewrite HaB in Hid. apply Pa in Hid. unfold qids in Hid. cbn [map concat] in Hid. apply in_app_or in Hid as [Hid|Hid]; [|exact Hid].
    exfalso. unfold newids in Hid. apply in_map_iff in Hid as [[id' n] [E Hn]]. cbn in E. subst id'.
    apply in_ids_alook in Hid0 as [x Hx]. unfold F in Hx.
    rewrite (clean_ov_aov_gone (mc_id c) (mc_items c) S2 id n Hn) in Hx; [discriminate| |exact Hndc].
    intros id' n' H'. unfold S2. rewrite fold_apply_aov_all, HaB. apply (Pt c id' n'); [rewrite Hq; left; reflexivity|exact H'].
  - rewrite F2, HqB. intros c' id n Hc' Hin. rewrite F6, HaB; [apply (Pt c' id n); [rewrite Hq; right; exact Hc'|exact Hin]|].
    intros n0 Hn0. apply (Hdis2 id); [unfold newids; apply in_map_iff; exists (id, n0); split; [reflexivity|exact Hn0]|].
    apply (in_qids c' rest id Hc'). unfold newids. apply in_map_iff. exists (id, n). split; [reflexivity|exact Hin].
Qed.

Lemma qids_app q1 q2 : qids (q1 ++ q2) = qids q1 ++ qids q2.
Proof. unfold qids. rewrite map_app, concat_app. reflexivity. Qed.
Lemma locked_pending_nil s : locked s = [] -> locked_pending s = [].
Proof. intros H. unfold locked_pending. rewrite H. induction (to_deref s) as [|e l IH]; [reflexivity|]. cbn [filter amem existsb]. exact IH. Qed.

(* appending a commit that creates no node and leaves the overlay of nodes alone *)
Lemma PInv_enqueue_plain s s' c :
  PInv s -> store_eq s' s -> aov s' = aov s -> next_id s' = next_id s -> mqueue s' = mqueue s ++ [c] ->
  mcid s' = mcid s + 1 -> mc_id c = mcid s + 1 -> ckind c -> nv (mc_items c) = [] -> PInv s'.
Proof.
  intros [PJ Pb Pk Pf Pa Pt] Hst Hav Hni Hq Hmc Hcid Hkind Hnv.
  assert (Hn : nodes s' = nodes s) by (destruct Hst as (_ & Hn & _); exact Hn).
  assert (Hqi : qids (mqueue s') = qids (mqueue s)) by (rewrite Hq, qids_app; unfold qids at 2, newids; cbn [map concat]; rewrite Hnv; cbn [map]; rewrite !app_nil_r; reflexivity).
  constructor.
  - eapply J_store_eq; [apply store_eq_sym; exact Hst|exact PJ].
  - rewrite Hn, Hni. exact Pb.
  - rewrite Hq, Hni, Hmc. apply Forall_app. split.
    + rewrite Forall_forall in *. intros c' Hc'. destruct (Pk c' Hc') as (A & B & C). split; [exact A|]. split; [lia|exact C].
    + constructor; [|constructor]. split; [exact Hkind|]. split; [lia|]. intros id Hid. unfold newids in Hid. rewrite Hnv in Hid. destruct Hid.
  - rewrite Hn, Hqi. exact Pf.
  - rewrite Hav, Hqi. exact Pa.
  - rewrite Hq, Hav. intros c' id n Hc' Hin. apply in_app_or in Hc' as [Hc'|[<-|[]]]; [exact (Pt c' id n Hc' Hin)|]. rewrite Hnv in Hin. destruct Hin.
Qed.

Theorem commit_ref_keeps cf s k : m_append_only cf = false -> PInv s -> PInv (fst (mcommit_tx cf s [URefTree k])).
Proof.
  intros Hao P. destruct (mcommit_tx cf s [URefTree k]) as [s' code] eqn:E. cbn [fst]. revert E.
  unfold mcommit_tx, static_ref_code. cbn [prepare static_code existsb]. rewrite Hao. cbn [negb andb orb].
  destruct (m_rc cf) eqn:Hrc; cbn [negb N.eqb].
  - cbn [prepare p_roots p_kv p_nodes p_check p_used existsb app items_of negb orb to_overlay]. rewrite ?Hrc. cbn [negb orb].
    intros E. injection E as <- <-.
    eapply (PInv_enqueue_plain s _ {| mc_id := mcid s + 1; mc_first := mcid s + 1; mc_items := [MRootRef k]; mc_check := false; mc_used := [] |} P);
      try reflexivity; [unfold store_eq; cbn; repeat split; reflexivity|].
    eapply ck_ref; reflexivity.
  - intros E. injection E as <- <-. exact P.
Qed.

Theorem commit_deref_keeps cf s k : m_append_only cf = false -> PInv s -> PInv (fst (mcommit_tx cf s [UDerefTree k])).
Proof.
  intros Hao P. destruct (mcommit_tx cf s [UDerefTree k]) as [s' code] eqn:E. cbn [fst]. revert E.
  unfold mcommit_tx, static_ref_code. cbn [prepare static_code existsb]. rewrite Hao. cbn [negb N.eqb].
  destruct (get_root s k) as [r|] eqn:Er.
  - cbn [prepare p_roots p_kv p_nodes p_check p_used existsb app items_of negb N.eqb to_overlay].
    intros E. injection E as <- <-.
    eapply (PInv_enqueue_plain s _ {| mc_id := mcid s + 1; mc_first := mcid s + 1; mc_items := [MDerefChildren k (n_children r)]; mc_check := true; mc_used := [] |} P);
      try reflexivity; [unfold store_eq; cbn; repeat split; reflexivity|].
    eapply ck_deref; reflexivity.
  - cbn [N.eqb negb]. intros E. injection E as <- <-. exact P.
Qed.

Theorem commit_insert_keeps cf s k t : m_append_only cf = false -> PInv s -> PInv (fst (mcommit_tx cf s [UInsertTree k t])).
Proof.
  intros Hao P. pose proof P as [PJ Pb Pk Pf Pa Pt].
  destruct (mcommit_tx cf s [UInsertTree k t]) as [s' code] eqn:E. cbn [fst]. revert E.
  unfold mcommit_tx. cbn [prepare static_code static_ref_code existsb].
  destruct (N.ltb_spec 255 (max_fanout t)) as [Hfan|Hfan].
  - cbn [N.eqb negb]. intros E. injection E as <- <-. exact P.
  - cbn [N.eqb negb]. rewrite Hao. destruct t as [d cs]. rewrite claim_root_eq.
    destruct (claim_children (claim_tree false) false cs (next_id s)) as [ids [next' items]] eqn:Ec.
    cbn [prepare N.eqb negb p_roots existsb orb items_of p_kv p_nodes p_check p_used app].
    intros E. injection E as <- <-.
    destruct (claim_children_ok false cs (fun t' _ => claim_tree_ok _ t') _ _ _ _ Ec) as (Hle & Hrange & Hnd & _).
    pose proof (claim_children_kind false cs (fun t' _ => claim_tree_kind _ t') _ _ _ _ Ec) as Hkind.
    pose proof (claim_children_shape cs (fun t' _ => claim_tree_shape t') _ _ _ _ Ec) as Hshape.
    set (cid := mcid s + 1). set (root := {| n_data := d; n_children := ids |}).
    cbn [to_overlay].
    set (base := {| roots := roots s; nodes := nodes s; nrc := nrc s; kv := kv s; rov := aput (rov s) k (cid, Some root); aov := aov s; kvov := kvov s;
                    mqueue := mqueue s; mcid := mcid s; next_id := next'; locked := locked s; readers := readers s; to_deref := to_deref s |}).
    set (T := to_overlay cf cid items base).
    set (c := {| mc_id := cid; mc_first := cid; mc_items := MRootSet k root :: items; mc_check := false; mc_used := locked_pending s |}).
    destruct (to_overlay_store cf cid items base) as (HTr & HTn & HTc & HTk). fold T in HTr, HTn, HTc, HTk.
    destruct (to_overlay_ctl cf cid items base) as [HTl HTi]. fold T in HTl, HTi.
    assert (HTq : mqueue T = mqueue s) by (unfold T; rewrite to_overlay_queue; reflexivity).
    assert (Hrng : forall id, In id (map fst (nv items)) -> next_id s <= id < next').
    { intros id Hid. apply in_map_iff in Hid as [[i n] [E Hi]]. cbn in E. subst i. unfold in_range in Hrange. rewrite Forall_forall in Hrange. exact (Hrange _ Hi). }
    assert (Hold : forall id, In id (map fst (nodes s) ++ qids (mqueue s)) -> id < next_id s).
    { intros id Hid. apply in_app_or in Hid as [Hid|Hid]; [exact (Pb id Hid)|]. unfold qids in Hid. apply in_concat in Hid as [l [Hl Hid]].
      apply in_map_iff in Hl as [c' [<- Hc']]. rewrite Forall_forall in Pk. exact (proj2 (proj2 (Pk c' Hc')) id Hid). }
    assert (Hnewc : newids c = map fst (nv items)) by reflexivity.
    constructor; cbn [locked roots nodes nrc next_id mqueue aov mcid].
    + eapply J_store_eq; [|exact PJ]. unfold store_eq. cbn [roots nodes nrc kv]. rewrite HTr, HTn, HTc, HTk. unfold base. cbn. repeat split; reflexivity.
    + rewrite HTn, HTi. unfold base. cbn [nodes next_id]. intros id Hid. specialize (Pb id Hid). lia.
    + rewrite HTq, HTi. unfold base. cbn [next_id]. apply Forall_app. split.
      * rewrite Forall_forall in *. intros c' Hc'. destruct (Pk c' Hc') as (A & B & C). split; [exact A|]. split; [unfold cid; lia|]. intros id Hid. specialize (C id Hid). lia.
      * constructor; [|constructor]. split; [eapply ck_insert; [reflexivity|reflexivity|exact Hkind|exact Hshape|exact Hnd]|]. split; [cbn [mc_id c]; lia|].
        intros id Hid. rewrite Hnewc in Hid. specialize (Hrng id Hid). lia.
    + rewrite HTq, HTn. unfold base. cbn [nodes]. rewrite qids_app, app_assoc. apply nodup_app_intro; [exact Pf| |].
      * unfold qids. cbn [map concat]. rewrite app_nil_r, Hnewc. exact Hnd.
      * intros x Hx Hy. unfold qids in Hy. cbn [map concat] in Hy. rewrite app_nil_r, Hnewc in Hy. specialize (Hold x Hx). specialize (Hrng x Hy). lia.
    + rewrite HTq, qids_app. intros id Hid. unfold T in Hid. apply to_overlay_aov_keys in Hid as [Hid|Hid]; apply in_or_app.
      * left. unfold base in Hid. cbn [aov] in Hid. exact (Pa id Hid).
      * right. unfold qids. cbn [map concat]. rewrite app_nil_r, Hnewc. exact Hid.
    + rewrite HTq. intros c' id n Hc' Hin. apply in_app_or in Hc' as [Hc'|[<-|[]]].
      * assert (Hlt : id < next_id s).
        { apply Hold. apply in_or_app. right. apply (in_qids c' _ id Hc'). unfold newids. apply in_map_iff. exists (id, n). split; [reflexivity|exact Hin]. }
        unfold T. rewrite to_overlay_aov_other; [unfold base; cbn [aov]; exact (Pt c' id n Hc' Hin)|].
        intros n0 Hn0. assert (Hge : next_id s <= id < next') by (apply Hrng; apply in_map_iff; exists (id, n0); split; [reflexivity|exact Hn0]). lia.
      * cbn [mc_items mc_id c] in *. change (MRootSet k root :: items) with ([MRootSet k root] ++ items) in Hin. rewrite nv_app in Hin. cbn [nv flat_map app] in Hin.
        exists n. unfold T. apply to_overlay_aov; assumption.
Qed.

(* ---- a commit that has to wait goes to the back of the queue under a new identity ---- *)
Lemma clean_ov_keep_tag cid items : forall s id t x, alook (aov s) id = Some (t, x) -> t <> cid ->
  alook (aov (clean_ov cid items s)) id = Some (t, x).
Proof.
  induction items as [|it items IH]; intros s id t x H Ht; [exact H|]. cbn [clean_ov]. apply IH; [|exact Ht].
  destruct it; cbn [aov]; try exact H. unfold drop_tag. destruct (alook (aov s) id0) as [[i y]|] eqn:E0; [|exact H].
  destruct (N.eqb_spec i cid) as [->|Hne]; [|exact H]. destruct (N.eq_dec id id0) as [->|Hd]; [rewrite H in E0; injection E0 as -> ->; contradiction|].
  rewrite alook_adel_neq by exact Hd. exact H.
Qed.
Lemma nodup_rotate {A} (a x y : list A) : NoDup (a ++ x ++ y) -> NoDup (a ++ y ++ x).
Proof.
  intros H. destruct (nodup_app_inv _ _ H) as (Ha & Hxy & D1). destruct (nodup_app_inv _ _ Hxy) as (Hx & Hy & D2).
  apply nodup_app_intro; [exact Ha|apply nodup_app_intro; [exact Hy|exact Hx|intros z Hz1 Hz2; exact (D2 z Hz2 Hz1)]|].
  intros z Hz Hz2. apply (D1 z Hz). apply in_app_or in Hz2 as [Hz2|Hz2]; apply in_or_app; [right|left]; exact Hz2.
Qed.
Lemma ckind_items c c' : mc_items c' = mc_items c -> mc_check c' = mc_check c -> ckind c -> ckind c'.
Proof.
  intros Hi Hc [k root items H1 H2 H3 H4 H5|k H1 H2|k cs H1 H2].
  - eapply ck_insert; [rewrite Hi; exact H1|rewrite Hc; exact H2|exact H3|exact H4|exact H5].
  - eapply ck_ref; [rewrite Hi; exact H1|rewrite Hc; exact H2].
  - eapply ck_deref; [rewrite Hi; exact H1|rewrite Hc; exact H2].
Qed.
Lemma ckind_nodup c : ckind c -> NoDup (newids c).
Proof. intros [k root items H1 _ _ _ H5|k H1 _|k cs H1 _]; unfold newids; rewrite H1; cbn [nv flat_map app map]; [exact H5|constructor|constructor]. Qed.

Theorem defer_keeps cf s c rest : PInv s -> mqueue s = c :: rest -> must_defer s c rest = true -> PInv (mprocess cf s).
Proof.
  intros P Hq Hd. pose proof P as [PJ Pb Pk Pf Pa Pt]. unfold mprocess. rewrite Hq, Hd. destruct rest as [|c2 rest'].
  - (* alone in the queue: it stays where it is *)
    unfold with_queue. constructor; cbn [roots nodes nrc next_id mqueue aov mcid]; rewrite <- ?Hq; try assumption.
    eapply J_store_eq; [|exact PJ]. unfold store_eq. cbn. repeat split; reflexivity.
  - set (rest := c2 :: rest') in *. set (nid' := mcid s + 1). set (items := mc_items c).
    set (s1 := to_overlay cf nid' items s). set (s2 := clean_ov (mc_id c) items s1).
    set (c' := {| mc_id := nid'; mc_first := mc_first c; mc_items := items; mc_check := mc_check c; mc_used := mc_used c |}).
    rewrite Hq in Pk, Pf, Pa. inversion Pk as [|? ? [Hkind [Hcid Hnew]] Pk']; subst.
    pose proof (ckind_nodup c Hkind) as Hndc. unfold newids in Hndc. fold items in Hndc.
    assert (Hst : store_eq s2 s) by (eapply store_eq_trans; [apply clean_ov_store|apply to_overlay_store]).
    assert (Hni : next_id s2 = next_id s) by (unfold s2, s1; rewrite (proj2 (clean_ov_ctl _ _ _)), (proj2 (to_overlay_ctl _ _ _ _)); reflexivity).
    assert (Hnew' : newids c' = newids c) by reflexivity.
    assert (Hqi : forall x, In x (qids (rest ++ [c'])) <-> In x (qids (c :: rest))).
    { intros x. rewrite qids_app. unfold qids at 2 3. cbn [map concat]. rewrite app_nil_r, Hnew'. rewrite !in_app_iff. tauto. }
    destruct (nodup_app_inv _ _ Pf) as (_ & Hnq & Hdis). unfold qids in Hnq. cbn [map concat] in Hnq. fold (qids rest) in Hnq.
    destruct (nodup_app_inv _ _ Hnq) as (_ & _ & Hdis2).
    constructor; cbn [roots nodes nrc next_id mqueue aov mcid].
    + eapply J_store_eq; [apply store_eq_sym; exact Hst|exact PJ].
    + destruct Hst as (_ & Hn & _). rewrite Hn, Hni. exact Pb.
    + rewrite Hni. apply Forall_app. split.
      * rewrite Forall_forall in *. intros c0 Hc0. destruct (Pk' c0 Hc0) as (A & B & C). split; [exact A|]. split; [unfold nid'; lia|exact C].
      * constructor; [|constructor]. split; [apply (ckind_items c c'); [reflexivity|reflexivity|exact Hkind]|]. split; [cbn [mc_id c']; lia|]. rewrite Hnew'. exact Hnew.
    + destruct Hst as (_ & Hn & _). rewrite Hn, qids_app. unfold qids at 2. cbn [map concat]. rewrite app_nil_r, Hnew'.
      apply nodup_rotate. unfold qids in Pf. cbn [map concat] in Pf. exact Pf.
    + intros id Hid. apply Hqi. unfold s2 in Hid. apply clean_ov_aov_keys in Hid. unfold s1 in Hid. apply to_overlay_aov_keys in Hid as [Hid|Hid].
      * exact (Pa id Hid).
      * unfold qids. cbn [map concat]. apply in_or_app. left. exact Hid.
    + intros c0 id n Hc0 Hin. apply in_app_or in Hc0 as [Hc0|[<-|[]]].
      * (* another commit's node: neither the new overlay entries nor the cleanup touch it *)
        assert (Hni0 : forall n0, ~ In (id, n0) (nv items)).
        { intros n0 Hn0. apply (Hdis2 id); [apply in_map_iff; exists (id, n0); split; [reflexivity|exact Hn0]|].
          apply (in_qids c0 rest id Hc0). unfold newids. apply in_map_iff. exists (id, n). split; [reflexivity|exact Hin]. }
        unfold s2. rewrite clean_ov_aov_other by exact Hni0. unfold s1. rewrite to_overlay_aov_other by exact Hni0.
        apply (Pt c0 id n); [rewrite Hq; right; exact Hc0|exact Hin].
      * cbn [mc_items mc_id c'] in *. exists n. unfold s2. apply clean_ov_keep_tag; [unfold s1; apply to_overlay_aov; assumption|unfold nid'; lia].
Qed.

Lemma PInv_locked_irrelevant s s' :
  PInv s -> roots s' = roots s -> nodes s' = nodes s -> nrc s' = nrc s -> kv s' = kv s -> aov s' = aov s -> mqueue s' = mqueue s ->
  mcid s' = mcid s -> next_id s' = next_id s -> PInv s'.
Proof.
  intros [PJ Pb Pk Pf Pa Pt] H1 H2 H3 H4 H5 H6 H7 H8. constructor; rewrite ?H2, ?H5, ?H6, ?H7, ?H8; try assumption.
  eapply J_store_eq; [|exact PJ]. unfold store_eq. repeat split; congruence.
Qed.

(* ---- every pipelined history, reader locks included ---- *)
Inductive pipe_run (cf : mcfg) : mstate -> Prop :=
| pr_init : pipe_run cf minit
| pr_commit s op : pipe_run cf s -> (exists k t, op = UInsertTree k t) \/ (exists k, op = URefTree k) \/ (exists k, op = UDerefTree k) ->
    pipe_run cf (fst (mcommit_tx cf s [op]))
| pr_process s c rest : pipe_run cf s -> mqueue s = c :: rest -> (must_defer s c rest = false -> head_ok s c) -> pipe_run cf (mprocess cf s)
| pr_lock s k : pipe_run cf s -> pipe_run cf (mlock s k)
| pr_unlock s k : pipe_run cf s -> pipe_run cf (munlock s k)
| pr_crash s : pipe_run cf s -> pipe_run cf (mcrash s).     (* process crash + open: what was queued is lost *)

Lemma PInv_init : PInv minit.
Proof. constructor; [exact J_init|intros id []|constructor|cbn; constructor|intros id []|intros c id n []]. Qed.

Theorem pipe_inv cf s : m_append_only cf = false -> pipe_run cf s -> PInv s.
Proof.
  intros Hao Hr. induction Hr as [|s op Hr IH Hop|s c rest Hr IH Hq Hok|s k Hr IH|s k Hr IH|s Hr IH].
  - exact PInv_init.
  - destruct Hop as [[k [t ->]]|[[k ->]|[k ->]]]; [apply commit_insert_keeps|apply commit_ref_keeps|apply commit_deref_keeps]; assumption.
  - destruct (must_defer s c rest) eqn:Hd; [eapply defer_keeps; eassumption|eapply process_keeps; [exact IH|exact Hq|exact Hd|exact (Hok eq_refl)]].
  - unfold mlock. destruct (get_root s k); [|exact IH]. eapply PInv_locked_irrelevant; [exact IH|reflexivity..].
  - unfold munlock. eapply PInv_locked_irrelevant; [exact IH|reflexivity..].
  - destruct IH as [PJ Pb Pk Pf Pa Pt]. unfold mcrash. constructor; cbn [locked nodes next_id mqueue aov].
    + eapply J_store_eq; [|exact PJ]. unfold store_eq. cbn. repeat split; reflexivity.
    + exact Pb.
    + constructor.
    + unfold qids. cbn [map concat]. rewrite app_nil_r. exact (j_nodup s [] PJ).
    + intros id [].
    + intros c id n [].
Qed.

(* when no root is left, nothing is left *)
Theorem pipe_all_dereferenced_is_empty cf s : m_append_only cf = false -> pipe_run cf s -> roots s = [] ->
  nodes s = [] /\ nrc s = [] /\ num_entries s = 0.
Proof.
  intros Hao Hr Hroots. pose proof (p_J s (pipe_inv cf s Hao Hr)) as HJ. destruct (no_root_no_node s HJ Hroots) as [Hn Hc].
  split; [exact Hn|]. split; [|unfold num_entries; rewrite Hroots, Hn; reflexivity].
  destruct (nrc s) as [|[id c] l]; [reflexivity|]. specialize (Hc id). cbn [alook] in Hc. rewrite N.eqb_refl in Hc. discriminate.
Qed.
Theorem pipe_count_is_number_of_references cf s id : m_append_only cf = false -> pipe_run cf s -> In id (map fst (nodes s)) ->
  N.to_nat (cnt s id) = (occ (kids_r (roots s)) id + occ (kids_n (nodes s)) id)%nat.
Proof. intros Hao Hr Hid. rewrite (j_count s [] (p_J s (pipe_inv cf s Hao Hr)) id Hid). cbn [count_occ]. lia. Qed.
Theorem pipe_reachable_is_stored cf s id : m_append_only cf = false -> pipe_run cf s -> reach s id -> exists n, alook (nodes s) id = Some n.
Proof. intros Hao Hr Hre. exact (reachable_is_stored s id (p_J s (pipe_inv cf s Hao Hr)) Hre). Qed.

(* ... and readable: the commit overlay never shadows a stored node *)
Theorem pipe_reachable_is_readable cf s id : m_append_only cf = false -> pipe_run cf s -> reach s id -> exists n, get_node s id = Some n.
Proof.
  intros Hao Hr Hre. pose proof (pipe_inv cf s Hao Hr) as P. destruct (reachable_is_stored s id (p_J s P) Hre) as [n Hn].
  exists n. unfold get_node. rewrite (PInv_ovfree s P id (alook_in_ids _ _ _ Hn)). exact Hn.
Qed.

(* ---- C11: while the reader lock of a tree is held its root stays, whatever is committed and processed ---- *)
Lemma deref_roots : forall f s l, roots (deref_children f s l) = roots s.
Proof.
  induction f as [|f IH]; intros s l; cbn [deref_children]; [reflexivity|]. destruct l as [|id rest]; [reflexivity|].
  cbv zeta. rewrite IH. destruct (alook (nrc s) id) as [c|]; [destruct (2 <? c); reflexivity|].
  destruct (get_node s id); [rewrite IH|]; reflexivity.
Qed.
Lemma prepare_frame cf ops : forall s p, let s' := fst (fst (prepare cf ops s p)) in
  store_eq s' s /\ locked s' = locked s /\ aov s' = aov s /\ rov s' = rov s /\ mqueue s' = mqueue s /\ mcid s' = mcid s.
Proof.
  induction ops as [|o ops IH]; intros s p; cbn [prepare]; [unfold store_eq; repeat split; reflexivity|].
  destruct o; cbv zeta.
  - destruct (255 <? max_fanout t); [unfold store_eq; cbn; repeat split; reflexivity|].
    destruct (claim_root (m_append_only cf) t (next_id s)) as [root [next' items]].
    match goal with |- context [prepare cf ops ?S ?P] => destruct (IH S P) as (A & B & C & D & E & F) end. cbv zeta in *. unfold store_eq in *. cbn in *. repeat split; tauto.
  - destruct (m_append_only cf); apply IH.
  - destruct (m_append_only cf); [unfold store_eq; cbn; repeat split; reflexivity|]. destruct (get_root s k); [|unfold store_eq; cbn; repeat split; reflexivity].
    match goal with |- context [prepare cf ops ?S ?P] => destruct (IH S P) as (A & B & C & D & E & F) end. cbv zeta in *. unfold store_eq in *. cbn in *. repeat split; tauto.
  - apply IH.
  - apply IH.
  - unfold store_eq; cbn; repeat split; reflexivity.
Qed.
Lemma mcommit_frame cf s ops : let s' := fst (mcommit_tx cf s ops) in roots s' = roots s /\ locked s' = locked s.
Proof.
  unfold mcommit_tx. destruct (negb (static_code cf ops =? 0)); [split; reflexivity|]. destruct (negb (static_ref_code cf ops =? 0)); [split; reflexivity|].
  destruct (prepare cf ops s _) as [[s1 p] code] eqn:Ep.
  pose proof (prepare_frame cf ops s {| p_roots := []; p_nodes := []; p_kv := []; p_check := false; p_used := [] |}) as Hf. cbv zeta in Hf. rewrite Ep in Hf. cbn [fst] in Hf.
  destruct Hf as ((Hr & _) & Hl & _). destruct (negb (code =? 0)); [cbn [fst]; split; assumption|].
  destruct (existsb _ (p_roots p)); [cbn [fst]; split; assumption|]. cbn [fst roots locked].
  destruct (to_overlay_store cf (mcid s1 + 1) (items_of p) s1) as (Hr2 & _). destruct (to_overlay_ctl cf (mcid s1 + 1) (items_of p) s1) as [Hl2 _]. split; congruence.
Qed.

Definition holds_root (s : mstate) (k : key) (r : node) : Prop := exists c, alook (roots s) k = Some (r, c).

Theorem locked_root_survives_processing cf s c rest k r :
  PInv s -> mqueue s = c :: rest -> (must_defer s c rest = false -> head_ok s c) ->
  amem (locked s) k = true -> holds_root s k r ->
  holds_root (mprocess cf s) k r /\ locked (mprocess cf s) = locked s.
Proof.
  intros P Hq Hok Hlk [c0 Hk]. destruct (must_defer s c rest) eqn:Hd.
  - (* postponed: the store is not touched *)
    unfold mprocess. rewrite Hq, Hd. destruct rest as [|c2 rest']; [split; [exists c0; exact Hk|reflexivity]|].
    cbn [roots locked]. destruct (clean_ov_store (mc_id c) (mc_items c) (to_overlay cf (mcid s + 1) (mc_items c) s)) as (A & _).
    destruct (to_overlay_store cf (mcid s + 1) (mc_items c) s) as (B & _).
    split; [exists c0; rewrite A, B; exact Hk|]. rewrite (proj1 (clean_ov_ctl _ _ _)), (proj1 (to_overlay_ctl _ _ _ _)). reflexivity.
  - specialize (Hok eq_refl). pose proof P as [PJ Pb Pk Pf Pa Pt]. rewrite Hq in Pk. inversion Pk as [|? ? [Hkind _] _]; subst.
    destruct (mprocess_nodefer cf s c rest Hq Hd) as (fuel & s0 & Hs0 & _ & Hm). rewrite Hm. clear Hm.
    assert (Hs0' : roots s0 = roots s /\ locked s0 = locked s).
    { destruct Hs0 as [->|((A & _) & _ & _ & C & _)]; [split; reflexivity|split; assumption]. }
    destruct Hs0' as (Hr0 & Hl0). set (B := with_queue s0 rest).
    assert (HrB : roots B = roots s) by (unfold B, with_queue; cbn [roots]; exact Hr0).
    assert (HlB : locked B = locked s) by (unfold B, with_queue; cbn [locked]; exact Hl0).
    destruct (clean_ov_store (mc_id c) (mc_items c) (fold_left (apply_item cf fuel) (mc_items c) B)) as (Hcr & _).
    split.
    + unfold holds_root. rewrite Hcr. unfold head_ok in Hok.
      destruct Hkind as [k0 root items Hit Hck Hki Hsh Hnd|k0 Hit Hck|k0 cs Hit Hck]; rewrite Hit in *.
      * destruct Hok as [Hfree _]. cbn [fold_left apply_item]. rewrite HrB, Hfree. rewrite apply_roots_nodes by exact Hki. cbn [set_store roots].
        assert (Hne : k <> k0) by (intros ->; rewrite Hfree in Hk; discriminate). exists c0. rewrite alook_aput_neq by exact Hne. exact Hk.
      * cbn [fold_left apply_item]. rewrite HrB. destruct (alook (roots s) k0) as [[n0 c1]|] eqn:E0; [|exists c0; rewrite HrB; exact Hk].
        destruct (m_rc cf); [|exists c0; rewrite HrB; exact Hk]. cbn [set_store roots].
        destruct (N.eq_dec k k0) as [->|Hne]; [rewrite E0 in Hk; injection Hk as -> ->; exists (c0 + 1); apply alook_aput_eq|exists c0; rewrite alook_aput_neq by exact Hne; exact Hk].
      * (* a dereference of the locked tree itself would have been postponed *)
        assert (Hne : k <> k0).
        { intros ->. unfold must_defer in Hd. rewrite Hck, Hit in Hd. cbn [andb deref_keys flat_map app existsb] in Hd. rewrite Hlk in Hd. discriminate. }
        cbn [fold_left apply_item]. rewrite HrB. destruct (alook (roots s) k0) as [[n0 c1]|] eqn:E0; [|exists c0; rewrite HrB; exact Hk].
        destruct (m_rc cf && (1 <? c1)); [cbn [set_store roots]; exists c0; rewrite alook_aput_neq by exact Hne; exact Hk|].
        rewrite deref_roots. cbn [set_store roots]. exists c0. rewrite alook_adel_neq by exact Hne. exact Hk.
    + rewrite (proj1 (clean_ov_ctl _ _ _)). destruct (fold_apply_ctl cf fuel (mc_items c) B) as (A & _). cbv zeta in A. rewrite A. exact HlB.
Qed.

(* the steps that can happen while the lock of tree [k] is held *)
Inductive held_step (cf : mcfg) (k : key) : mstate -> mstate -> Prop :=
| hs_commit s op : (exists k0 t, op = UInsertTree k0 t) \/ (exists k0, op = URefTree k0) \/ (exists k0, op = UDerefTree k0) ->
    held_step cf k s (fst (mcommit_tx cf s [op]))
| hs_process s c rest : mqueue s = c :: rest -> (must_defer s c rest = false -> head_ok s c) -> held_step cf k s (mprocess cf s)
| hs_lock s k' : held_step cf k s (mlock s k')
| hs_unlock s k' : k' <> k -> held_step cf k s (munlock s k').
Inductive held_run (cf : mcfg) (k : key) : mstate -> mstate -> Prop :=
| hr_refl s : held_run cf k s s
| hr_step s1 s2 s3 : held_run cf k s1 s2 -> held_step cf k s2 s3 -> held_run cf k s1 s3.

Lemma held_run_pipe cf k s s' : held_run cf k s s' -> pipe_run cf s -> pipe_run cf s'.
Proof.
  induction 1 as [s|s1 s2 s3 Hrun IH Hstep]; intros Hp; [exact Hp|]. specialize (IH Hp).
  destruct Hstep as [s op Hop|s c rest Hq Hok|s k'|s k' Hne]; [apply pr_commit|eapply pr_process|apply pr_lock|apply pr_unlock]; eassumption.
Qed.

Lemma amem_true l k : amem l k = true <-> In k l.
Proof.
  unfold amem. rewrite existsb_exists. split; [intros [x [Hx E]]; apply N.eqb_eq in E; subst; exact Hx|intros H; exists k; split; [exact H|apply N.eqb_refl]].
Qed.

Theorem locked_tree_root_is_kept cf k s s' r :
  m_append_only cf = false -> pipe_run cf s -> held_run cf k s s' ->
  amem (locked s) k = true -> holds_root s k r -> holds_root s' k r /\ amem (locked s') k = true.
Proof.
  intros Hao Hp Hrun. induction Hrun as [s|s1 s2 s3 Hrun IH Hstep]; intros Hlk Hroot; [split; assumption|].
  destruct (IH Hp Hlk Hroot) as [Hr2 Hl2]. pose proof (pipe_inv cf s2 Hao (held_run_pipe cf k s1 s2 Hrun Hp)) as P2.
  destruct Hstep as [s op Hop|s c rest Hq Hok|s k'|s k' Hne].
  - destruct (mcommit_frame cf s [op]) as [A B]. cbv zeta in A, B. unfold holds_root. rewrite A, B. split; assumption.
  - destruct (locked_root_survives_processing cf s c rest k r P2 Hq Hok Hl2 Hr2) as [A B]. split; [exact A|rewrite B; exact Hl2].
  - unfold mlock. destruct (get_root s k'); [|split; assumption]. unfold holds_root. cbn [roots locked]. split; [exact Hr2|].
    destruct (amem (locked s) k') eqn:E; [exact Hl2|]. apply amem_true. right. apply amem_true. exact Hl2.
  - unfold munlock, holds_root. cbn [roots locked]. split; [exact Hr2|]. apply amem_true. apply filter_In. split; [apply amem_true; exact Hl2|].
    destruct (N.eqb_spec k k'); [congruence|reflexivity].
Qed.

(* ... and with the root every node of the tree: stored, and readable through the overlay *)
Inductive tree_reach (s : mstate) (r : node) : nid -> Prop :=
| tr_child id : In id (n_children r) -> tree_reach s r id
| tr_node p n id : tree_reach s r p -> alook (nodes s) p = Some n -> In id (n_children n) -> tree_reach s r id.
Lemma tree_reach_reach s k r id : holds_root s k r -> tree_reach s r id -> reach s id.
Proof.
  intros [c Hk] H. induction H as [id Hid|p n id _ IH Hn Hid]; [apply reach_root; eapply in_kids_r; eassumption|eapply reach_node; eassumption].
Qed.

Theorem locked_tree_stays_readable cf k s s' r :
  m_append_only cf = false -> pipe_run cf s -> held_run cf k s s' ->
  amem (locked s) k = true -> holds_root s k r ->
  holds_root s' k r /\ forall id, tree_reach s' r id -> exists n, get_node s' id = Some n.
Proof.
  intros Hao Hp Hrun Hlk Hroot. destruct (locked_tree_root_is_kept cf k s s' r Hao Hp Hrun Hlk Hroot) as [Hr' _].
  split; [exact Hr'|]. intros id Hid.
  exact (pipe_reachable_is_readable cf s' id Hao (held_run_pipe cf k s s' Hrun Hp) (tree_reach_reach s' k r id Hr' Hid)).
Qed.

(* ---- ... and unchanged: a stored node is never given another value ---- *)
Lemma deref_nodes_mono : forall f s l id n, alook (nodes s) id = Some n ->
  alook (nodes (deref_children f s l)) id = Some n \/ alook (nodes (deref_children f s l)) id = None.
Proof.
  induction f as [|f IH]; intros s l id n H; cbn [deref_children]; [left; exact H|]. destruct l as [|i rest]; [left; exact H|]. cbv zeta.
  destruct (alook (nrc s) i) as [c|].
  - destruct (2 <? c); apply IH; exact H.
  - set (s1 := set_store s (roots s) (adel (nodes s) i) (nrc s)).
    assert (H1 : alook (nodes s1) id = Some n \/ alook (nodes s1) id = None).
    { cbn [s1 set_store nodes]. destruct (N.eq_dec id i) as [->|Hne]; [right; apply alook_adel_eq|left; rewrite alook_adel_neq by exact Hne; exact H]. }
    assert (G : forall s2, (alook (nodes s2) id = Some n \/ alook (nodes s2) id = None) -> forall l2,
                alook (nodes (deref_children f s2 l2)) id = Some n \/ alook (nodes (deref_children f s2 l2)) id = None).
    { intros s2 [Hs|Hn] l2; [exact (IH s2 l2 id n Hs)|]. right.
      destruct (alook (nodes (deref_children f s2 l2)) id) as [m|] eqn:E; [|reflexivity]. exfalso.
      destruct (deref_ctl f s2 l2) as (_ & _ & _ & D). cbv zeta in D. apply alook_in_ids in E. apply D in E. apply in_ids_alook in E as [x Hx]. congruence. }
    destruct (get_node s i) as [m|]; [apply G; apply G; exact H1|apply G; exact H1].
Qed.

Lemma step_nodes_mono cf k s s' id n : PInv s -> held_step cf k s s' -> alook (nodes s) id = Some n ->
  alook (nodes s') id = Some n \/ alook (nodes s') id = None.
Proof.
  intros P Hstep H. destruct Hstep as [s op Hop|s c rest Hq Hok|s k'|s k' Hne].
  - left. unfold mcommit_tx. destruct (negb (static_code cf [op] =? 0)); [exact H|]. destruct (negb (static_ref_code cf [op] =? 0)); [exact H|].
    destruct (prepare cf [op] s _) as [[s1 p] code] eqn:Ep.
    pose proof (prepare_frame cf [op] s {| p_roots := []; p_nodes := []; p_kv := []; p_check := false; p_used := [] |}) as Hf. cbv zeta in Hf. rewrite Ep in Hf. cbn [fst] in Hf.
    destruct Hf as ((_ & Hn & _) & _). destruct (negb (code =? 0)); [cbn [fst]; rewrite Hn; exact H|].
    destruct (existsb _ (p_roots p)); [cbn [fst]; rewrite Hn; exact H|]. cbn [fst nodes].
    destruct (to_overlay_store cf (mcid s1 + 1) (items_of p) s1) as (_ & Hn2 & _). rewrite Hn2, Hn. exact H.
  - destruct (must_defer s c rest) eqn:Hd.
    + left. unfold mprocess. rewrite Hq, Hd. destruct rest as [|c2 rest']; [exact H|]. cbn [nodes].
      destruct (clean_ov_store (mc_id c) (mc_items c) (to_overlay cf (mcid s + 1) (mc_items c) s)) as (_ & A & _).
      destruct (to_overlay_store cf (mcid s + 1) (mc_items c) s) as (_ & B & _). rewrite A, B. exact H.
    + pose proof P as [PJ Pb Pk Pf Pa Pt]. rewrite Hq in Pk, Pf. inversion Pk as [|? ? [Hkind _] _]; subst.
      destruct (mprocess_nodefer cf s c rest Hq Hd) as (fuel & s0 & Hs0 & _ & Hm). rewrite Hm. clear Hm.
      assert (Hn0 : nodes s0 = nodes s) by (destruct Hs0 as [->|((_ & A & _) & _)]; [reflexivity|exact A]).
      set (B := with_queue s0 rest). assert (HnB : nodes B = nodes s) by (unfold B, with_queue; cbn [nodes]; exact Hn0).
      destruct (clean_ov_store (mc_id c) (mc_items c) (fold_left (apply_item cf fuel) (mc_items c) B)) as (_ & Hcn & _). rewrite Hcn.
      destruct Hkind as [k0 root items Hit Hck Hki Hsh Hnd|k0 Hit Hck|k0 cs Hit Hck]; rewrite Hit.
      * left. cbn [fold_left]. rewrite apply_nodes_other; [|exact Hki|].
        -- cbn [apply_item]. destruct (alook (roots B) k0) as [[n0 c1]|]; [destruct (m_rc cf)|]; cbn [set_store nodes]; rewrite HnB; exact H.
        -- intros n1 Hn1. destruct (nodup_app_inv _ _ Pf) as (_ & _ & Hdis). apply (Hdis id (alook_in_ids _ _ _ H)).
           unfold qids. cbn [map concat]. apply in_or_app. left. unfold newids. rewrite Hit. cbn [nv flat_map app]. apply in_map_iff. exists (id, n1). split; [reflexivity|exact Hn1].
      * left. cbn [fold_left]. rewrite rootref_nodes, HnB. exact H.
      * cbn [fold_left apply_item]. destruct (alook (roots B) k0) as [[n0 c1]|]; [|left; rewrite HnB; exact H].
        destruct (m_rc cf && (1 <? c1)); [left; cbn [set_store nodes]; rewrite HnB; exact H|].
        apply deref_nodes_mono. cbn [set_store nodes]. rewrite HnB. exact H.
  - left. unfold mlock. destruct (get_root s k'); exact H.
  - left. exact H.
Qed.

Theorem locked_tree_is_unchanged cf k s s' r :
  m_append_only cf = false -> pipe_run cf s -> held_run cf k s s' ->
  amem (locked s) k = true -> holds_root s k r ->
  forall id n, tree_reach s r id -> alook (nodes s) id = Some n -> alook (nodes s') id = Some n /\ tree_reach s' r id.
Proof.
  intros Hao Hp Hrun Hlk Hroot. induction Hrun as [s|s1 s2 s3 Hrun IH Hstep]; [intros id n Ht Hn; split; assumption|].
  specialize (IH Hp Hlk Hroot).
  pose proof (held_run_pipe cf k s1 s2 Hrun Hp) as Hp2. pose proof (pipe_inv cf s2 Hao Hp2) as P2.
  assert (Hrun3 : held_run cf k s1 s3) by (eapply hr_step; eassumption).
  pose proof (held_run_pipe cf k s1 s3 Hrun3 Hp) as Hp3. pose proof (pipe_inv cf s3 Hao Hp3) as P3.
  destruct (locked_tree_root_is_kept cf k s1 s3 r Hao Hp Hrun3 Hlk Hroot) as [Hr3 _].
  intros id n Ht. revert n. induction Ht as [id Hid|p np id Htp IHp Hnp Hid]; intros n Hn.
  - assert (T3 : tree_reach s3 r id) by (apply tr_child; exact Hid).
    destruct (IH id n (tr_child s1 r id Hid) Hn) as [H2 _].
    destruct (step_nodes_mono cf k s2 s3 id n P2 Hstep H2) as [H3|H3]; [split; assumption|].
    destruct (reachable_is_stored s3 id (p_J s3 P3) (tree_reach_reach s3 k r id Hr3 T3)) as [m Hm]. congruence.
  - destruct (IHp np Hnp) as [Hp3' Tp3].
    assert (T3 : tree_reach s3 r id) by (eapply tr_node; eassumption).
    destruct (IH id n (tr_node s1 r p np id Htp Hnp Hid) Hn) as [H2 _].
    destruct (step_nodes_mono cf k s2 s3 id n P2 Hstep H2) as [H3|H3]; [split; assumption|].
    destruct (reachable_is_stored s3 id (p_J s3 P3) (tree_reach_reach s3 k r id Hr3 T3)) as [m Hm]. congruence.
Qed.

(* ---- without a lock nothing is postponed: commits are processed in the order they were made ---- *)
Theorem no_lock_no_postponement cf s c rest :
  mqueue s = c :: rest -> locked s = [] -> Forall (fun c' => mc_used c' = []) rest ->
  must_defer s c rest = false /\ mqueue (mprocess cf s) = rest.
Proof.
  intros Hq Hl Hu.
  assert (Hd : must_defer s c rest = false).
  { unfold must_defer. apply andb_false_iff. right. apply existsb_all_false. intros k _. rewrite Hl. cbn [amem existsb orb].
    unfold waits_for. apply existsb_all_false. intros c' Hc'. rewrite Forall_forall in Hu. rewrite (Hu c' Hc'). cbn [amem existsb]. apply andb_false_r. }
  split; [exact Hd|]. destruct (mprocess_nodefer cf s c rest Hq Hd) as (fuel & s0 & _ & _ & Hm). rewrite Hm.
  rewrite clean_ov_queue, fold_apply_queue. reflexivity.
Qed.
(* a commit made while no lock is held waits for nobody ([mc_used] is what makes OTHER commits wait for it) *)
Lemma commit_without_lock_uses_nothing cf s op c :
  locked s = [] -> In c (mqueue (fst (mcommit_tx cf s [op]))) -> ~ In c (mqueue s) -> mc_used c = [].
Proof.
  intros Hl Hin Hnot. unfold mcommit_tx in Hin. destruct (negb (static_code cf [op] =? 0)); [contradiction|]. destruct (negb (static_ref_code cf [op] =? 0)); [contradiction|].
  destruct (prepare cf [op] s _) as [[s1 p] code] eqn:Ep.
  assert (Hq1 : mqueue s1 = mqueue s).
  { pose proof (prepare_frame cf [op] s {| p_roots := []; p_nodes := []; p_kv := []; p_check := false; p_used := [] |}) as Hf. cbv zeta in Hf. rewrite Ep in Hf. cbn [fst] in Hf. tauto. }
  destruct (negb (code =? 0)); [cbn [fst] in Hin; rewrite Hq1 in Hin; contradiction|].
  destruct (existsb _ (p_roots p)); [cbn [fst] in Hin; rewrite Hq1 in Hin; contradiction|]. cbn [fst mqueue] in Hin. rewrite to_overlay_queue, Hq1 in Hin.
  apply in_app_or in Hin as [Hin|[<-|[]]]; [contradiction|]. cbn [mc_used].
  (* p_used only ever collects locked_pending, which is empty without locks *)
  revert Ep. cbn [prepare]. destruct op; cbv zeta.
  - destruct (255 <? max_fanout t); [intros E; injection E as <- <- <-; reflexivity|].
    destruct (claim_root (m_append_only cf) t (next_id s)) as [root [next' items]]. cbn [prepare p_used app]. intros E. injection E as <- <- <-. cbn [p_used].
    apply locked_pending_nil. exact Hl.
  - destruct (m_append_only cf); cbn [prepare]; intros E; injection E as <- <- <-; reflexivity.
  - destruct (m_append_only cf); [intros E; injection E as <- <- <-; reflexivity|]. destruct (get_root s k); cbn [prepare]; intros E; injection E as <- <- <-; reflexivity.
  - cbn [prepare]. intros E. injection E as <- <- <-. reflexivity.
  - cbn [prepare]. intros E. injection E as <- <- <-. reflexivity.
  - intros E. injection E as <- <- <-. reflexivity.
Qed.
