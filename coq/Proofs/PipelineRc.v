(* Cell-level end-to-end statement (all column kinds) and the reference-count corollaries (C07). *)
From Coq Require Import NArith List Bool Lia.
From PDB Require Import Model.Pipeline Model.PipelineSpec Proofs.PipelineBase Proofs.PipelineLog Proofs.PipelineTop.
Import ListNotations.
Open Scope N_scope.

Section Rc.
Variable cfg : list ccfg.
Variable f : loc -> val.
Notation Inv := (Inv cfg f).
Notation step_pre := (PipelineSpec.step_pre cfg f).
Notation accepted := (PipelineSpec.accepted cfg).

Definition apply_txs (M : loc -> cell) (ts : list tx) : loc -> cell := fold_left (apply_tx cfg) ts M.

Lemma apply_txs_ext ts : forall M M', (forall l, M l = M' l) -> forall l, apply_txs M ts l = apply_txs M' ts l.
Proof.
  unfold apply_txs. induction ts as [|t ts IH]; intros M M' H l; cbn [fold_left]; [apply H|].
  apply IH. intros x. apply apply_tx_ext. exact H.
Qed.

(* logical cell of every location *)
Definition LC (s : pstate) : loc -> cell := apply_txs (lread s) (map snd (queue s)).

Lemma log_step_LC s s' : (forall l, lread s' l = lread s l) -> queue s' = queue s -> forall l, LC s' l = LC s l.
Proof. intros H Hq l. unfold LC. rewrite Hq. apply apply_txs_ext. exact H. Qed.

Lemma process_LC s : Inv s -> forall l, LC (process cfg s) l = LC s l.
Proof.
  intros HI l. pose proof HI as (HL & _). destruct (queue s) as [|[cid t] rest] eqn:Eq.
  - unfold process. rewrite Eq. reflexivity.
  - destruct (process_props cfg s cid t rest HL Eq) as (_ & Hread & Eq' & _).
    unfold LC. rewrite Eq', Eq. cbn [map snd]. unfold apply_txs at 2. cbn [fold_left].
    apply apply_txs_ext. exact Hread.
Qed.

Lemma process_all_LC fuel : forall s, Inv s -> forall l, LC (process_all cfg fuel s) l = LC s l.
Proof.
  induction fuel as [|n IH]; intros s HI l; cbn [process_all]; [reflexivity|].
  destruct (queue s) eqn:Eq; [reflexivity|].
  rewrite IH by (apply (process_preserves cfg f s HI)). apply process_LC. exact HI.
Qed.

Lemma kill_logs_LC s : Inv s -> forall l, LC (kill_logs cfg s) l = LC s l.
Proof.
  intros H0 l. unfold kill_logs.
  destruct (enact_all_props s (proj1 H0)) as (a1 & a2 & a3 & _).
  destruct (log_step_preserves cfg f _ _ H0 a1 a2 a3) as [H1 _]. remember (enact_all s) as s1 eqn:E1. clear E1.
  destruct (flush_props s1 (proj1 H1)) as (b1 & b2 & b3 & _).
  destruct (log_step_preserves cfg f _ _ H1 b1 b2 b3) as [H2 _]. remember (flush s1) as s2 eqn:E2. clear E2.
  destruct (process_all_preserves cfg f (length (queue s2)) s2 H2 (le_n _)) as (H3 & _ & _).
  pose proof (process_all_LC (length (queue s2)) s2 H2) as L3. remember (process_all cfg (length (queue s2)) s2) as s3 eqn:E3. clear E3.
  destruct (enact_all_props s3 (proj1 H3)) as (c1 & c2 & c3 & _).
  destruct (log_step_preserves cfg f _ _ H3 c1 c2 c3) as [H4 _]. remember (enact_all s3) as s4 eqn:E4. clear E4.
  destruct (flush_props s4 (proj1 H4)) as (d1 & d2 & d3 & _).
  destruct (log_step_preserves cfg f _ _ H4 d1 d2 d3) as [H5 _]. remember (flush s4) as s5 eqn:E5. clear E5.
  destruct (enact_all_props s5 (proj1 H5)) as (e1 & e2 & e3 & _).
  destruct (log_step_preserves cfg f _ _ H5 e1 e2 e3) as [H6 _]. remember (enact_all s5) as s6 eqn:E6. clear E6.
  destruct (clean_props s6 (proj1 H6)) as (f1 & f2 & f3 & _).
  rewrite (log_step_LC s6 _ f2 (proj1 (proj2 f3))).
  rewrite (log_step_LC s5 _ e2 (proj1 (proj2 e3))).
  rewrite (log_step_LC s4 _ d2 (proj1 (proj2 d3))).
  rewrite (log_step_LC s3 _ c2 (proj1 (proj2 c3))).
  rewrite L3.
  rewrite (log_step_LC s1 _ b2 (proj1 (proj2 b3))).
  apply (log_step_LC s _ a2 (proj1 (proj2 a3))).
Qed.

Lemma reopen_LC s : Inv s -> forall l, LC (reopen cfg s) l = LC s l.
Proof.
  intros HI l. rewrite <- (kill_logs_LC s HI).
  destruct (reopen_preserves cfg f s HI) as (_ & _ & QR & _ & TR).
  destruct (kill_logs_preserves cfg f s HI) as (_ & _ & QK).
  unfold LC. rewrite QR, QK. cbn [map]. unfold apply_txs; cbn [fold_left].
  pose proof HI as (_ & _ & Hbg & _).
  unfold lread at 1, lov_read. replace (lo (reopen cfg s)) with (@nil (loc * (N * cell))) by (unfold reopen; rewrite Hbg; reflexivity).
  cbn [look]. apply TR.
Qed.

Lemma apply_txs_app M a b : apply_txs M (a ++ b) = apply_txs (apply_txs M a) b.
Proof. unfold apply_txs. apply fold_left_app. Qed.

Lemma step_LC s st : Inv s -> step_pre st ->
  forall l, LC (fst (do_step cfg s st)) l = apply_txs (LC s) (accepted [st]) l.
Proof.
  intros HI Hst l. destruct st as [t| | | | | | |]; cbn [do_step fst PipelineSpec.accepted].
  - pose proof HI as (_ & _ & Hbg & _). unfold commit. rewrite Hbg.
    destruct (tx_valid cfg t); cbn [negb fst]; [|reflexivity].
    unfold LC at 1. cbn [queue]. rewrite map_app, apply_txs_app. reflexivity.
  - apply process_LC. exact HI.
  - destruct (flush_props s (proj1 HI)) as (_ & a2 & a3 & _). apply (log_step_LC s _ a2 (proj1 (proj2 a3))).
  - destruct (enact_one_props s (proj1 HI)) as (_ & a2 & a3 & _). apply (log_step_LC s _ a2 (proj1 (proj2 a3))).
  - destruct (enact_all_props s (proj1 HI)) as (_ & a2 & a3 & _). apply (log_step_LC s _ a2 (proj1 (proj2 a3))).
  - reflexivity.
  - apply reopen_LC. exact HI.
  - reflexivity.
Qed.

Lemma run_LC steps : forall s, Inv s -> Forall step_pre steps ->
  forall l, LC (run cfg s steps) l = apply_txs (LC s) (accepted steps) l.
Proof.
  induction steps as [|st steps IH]; intros s HI Hpre l; cbn [run]; [reflexivity|].
  pose proof (Forall_inv Hpre) as Hst. pose proof (Forall_inv_tail Hpre) as Hrest.
  rewrite IH; [|apply (step_preserves cfg f s st HI Hst)|exact Hrest].
  rewrite (accepted_cons cfg), apply_txs_app. apply apply_txs_ext. apply step_LC; assumption.
Qed.

(* every column kind: the logical cell of every key is the fold of the accepted transactions *)
Theorem cells_are_spec steps l : Forall step_pre steps ->
  LC (run cfg init steps) l = apply_txs (fun _ => None) (accepted steps) l.
Proof. intros H. rewrite (run_LC steps init (Inv_init cfg f) H). apply apply_txs_ext. reflexivity. Qed.

(* ---- counts ---- *)
Definition R (n : N) (c : cell) : Prop :=
  match c with None => n = 0 | Some (_, rc) => rc = n /\ 0 < n end.

Lemma apply_op_cnt cf n cur o : c_rc cf = true -> R n cur -> R (cnt_op n o) (apply_op cf cur o).
Proof.
  intros Hrc HR. unfold apply_op, R in *. destruct o as [k v|k|k]; cbn [plan_op cnt_op]; destruct cur as [[v0 rc]|].
  - rewrite Hrc. destruct HR as [-> Hp]. split; lia.
  - subst n. split; [reflexivity|lia].
  - rewrite Hrc. destruct HR as [-> Hp]. destruct (N.ltb_spec 1 n).
    + replace (0 <? n) with true by (symmetry; apply N.ltb_lt; lia). split; lia.
    + replace (0 <? n) with true by (symmetry; apply N.ltb_lt; lia). lia.
  - subst n. reflexivity.
  - rewrite Hrc. destruct HR as [-> Hp]. replace (0 <? n) with true by (symmetry; apply N.ltb_lt; lia). split; lia.
  - subst n. reflexivity.
Qed.

Lemma apply_tx_cnt t : forall M C l, c_rc (cfg_of cfg (fst l)) = true -> R (C l) (M l) ->
  R (cnt_tx C t l) (apply_tx cfg M t l).
Proof.
  unfold cnt_tx. induction t as [|[c o] t IH]; intros M C l Hrc HR; cbn [fold_left apply_tx]; [exact HR|].
  apply IH; [exact Hrc|]. unfold cnt_step, upd; cbn [fst snd].
  destruct (loc_eqb_spec (c, op_key o) l) as [<-|Hne]; [|exact HR].
  cbn [fst] in Hrc. apply apply_op_cnt; assumption.
Qed.

Lemma apply_txs_cnt ts : forall M C l, c_rc (cfg_of cfg (fst l)) = true -> R (C l) (M l) ->
  R (cnt_txs C ts l) (apply_txs M ts l).
Proof.
  unfold cnt_txs, apply_txs. induction ts as [|t ts IH]; intros M C l Hrc HR; cbn [fold_left]; [exact HR|].
  apply IH; [exact Hrc|]. apply apply_tx_cnt; assumption.
Qed.

(* a transaction without a Set on l cannot create l *)
Lemma apply_tx_no_set t : forall M l, c_rc (cfg_of cfg (fst l)) = true ->
  lastw (entries cfg t) l = None -> M l = None -> apply_tx cfg M t l = None.
Proof.
  induction t as [|[c o] t IH]; intros M l Hrc Hno HM; cbn [apply_tx]; [exact HM|].
  cbn [entries flat_map] in Hno. fold (entries cfg t) in Hno. rewrite lastw_app in Hno.
  destruct (lastw (entries cfg t) l) eqn:E; [discriminate|].
  apply IH; [exact Hrc|exact E|]. unfold upd.
  destruct (loc_eqb_spec (c, op_key o) l) as [<-|Hne]; [|exact HM].
  cbn [fst] in Hrc. unfold entry_of in Hno; cbn [fst snd] in Hno. rewrite HM.
  destruct o as [k v|k|k]; cbn [covl_entry op_key lastw] in *.
  - rewrite loc_eqb_refl in Hno. discriminate.
  - reflexivity.
  - reflexivity.
Qed.

Lemma apply_txs_no_set Q : forall M l, c_rc (cfg_of cfg (fst l)) = true ->
  last_queued cfg Q l = None -> M l = None -> apply_txs M (map snd Q) l = None.
Proof.
  unfold apply_txs, last_queued. induction Q as [|[cid t] Q IH]; intros M l Hrc Hno HM; cbn [map fold_left snd]; [exact HM|].
  rewrite last_tagged_cons in Hno. destruct (last_tagged fst (qwr cfg) Q l) eqn:E; [discriminate|].
  unfold acct, qwr in Hno; cbn [snd] in Hno. destruct (lastw (entries cfg t) l) eqn:El; [discriminate|].
  apply IH; [exact Hrc|exact E|]. apply apply_tx_no_set; assumption.
Qed.

(* an overlay entry of a counted column carries the value of a Set in a queued transaction *)
Lemma entries_set t l e : c_rc (cfg_of cfg (fst l)) = true -> lastw (entries cfg t) l = Some e ->
  exists v, e = Some v /\ In (fst l, OSet (snd l) v) t.
Proof.
  intros Hrc. induction t as [|[c o] t IH]; cbn [entries flat_map]; [discriminate|].
  fold (entries cfg t). rewrite lastw_app. destruct (lastw (entries cfg t) l) eqn:E.
  - intros H; injection H as <-. destruct (IH eq_refl) as (v & Hv & Hin). exists v. split; [exact Hv|right; exact Hin].
  - unfold entry_of; cbn [fst snd]. destruct o as [k v|k|k]; cbn [covl_entry op_key lastw].
    + destruct (loc_eqb_spec (c, k) l) as [<-|Hne]; [|discriminate]. intros H; injection H as <-.
      exists v. split; [reflexivity|left; reflexivity].
    + destruct (c_rc (cfg_of cfg c)) eqn:Ec; cbn [lastw]; [discriminate|].
      destruct (loc_eqb_spec (c, k) l) as [<-|Hne]; [|discriminate]. cbn [fst] in Hrc. congruence.
    + discriminate.
Qed.

Lemma last_queued_in Q l i e : last_queued cfg Q l = Some (i, e) ->
  exists q, In q Q /\ lastw (entries cfg (snd q)) l = Some e.
Proof.
  unfold last_queued. induction Q as [|q Q IH] using rev_ind; [discriminate|].
  rewrite last_tagged_snoc. unfold acct, qwr. destruct (lastw (entries cfg (snd q)) l) eqn:E.
  - intros H; injection H as <- <-. exists q. split; [apply in_or_app; right; left; reflexivity|exact E].
  - intros H. destruct (IH H) as (q' & Hin & Hq). exists q'. split; [apply in_or_app; left; exact Hin|exact Hq].
Qed.

Theorem positive_readable steps c k :
  Forall step_pre steps -> c_rc (cfg_of cfg c) = true -> c_preimage (cfg_of cfg c) = true ->
  0 < cnt_txs (fun _ => 0) (accepted steps) (c, k) ->
  get (run cfg init steps) c k = Some (f (c, k)).
Proof.
  intros Hpre Hrc Hpi Hpos.
  destruct (run_preserves cfg f steps init (Inv_init cfg f) Hpre) as [HI _].
  pose proof (cells_are_spec steps (c, k) Hpre) as HC.
  pose proof (apply_txs_cnt (accepted steps) (fun _ : loc => None) (fun _ : loc => 0) (c, k) Hrc eq_refl) as HR.
  rewrite <- HC in HR. set (s := run cfg init steps) in *.
  pose proof HI as (_ & [_ Hov] & _ & HP & HQ).
  unfold get. rewrite Hov. destruct (last_queued cfg (queue s) (c, k)) as [[i e]|] eqn:El.
  - destruct (last_queued_in _ _ _ _ El) as (q & Hin & Hq).
    destruct (entries_set (snd q) (c, k) e Hrc Hq) as (v & -> & Hset). cbn [fst snd] in Hset.
    rewrite Forall_forall in HQ. destruct (HQ q Hin) as [_ Htp]. unfold PipelineSpec.tx_pre in Htp.
    rewrite Forall_forall in Htp. specialize (Htp _ Hset). unfold PipelineSpec.op_pre in Htp; cbn [fst snd] in Htp.
    rewrite (Htp Hpi). reflexivity.
  - destruct (lread s (c, k)) as [[v0 rc0]|] eqn:Er.
    + unfold lread in Er. rewrite Er. cbn [option_map fst]. f_equal. apply (HP (c, k) v0 rc0 Hpi Er).
    + exfalso. unfold LC in HR. rewrite (apply_txs_no_set (queue s) (lread s) (c, k) Hrc El Er) in HR.
      cbn [R] in HR. lia.
Qed.

Theorem logged_iff steps c k :
  Forall step_pre steps -> c_rc (cfg_of cfg c) = true ->
  queue (run cfg init steps) = [] ->
  (get (run cfg init steps) c k <> None <-> 0 < cnt_txs (fun _ => 0) (accepted steps) (c, k))
  /\ stored_rc (run cfg init steps) c k = cnt_txs (fun _ => 0) (accepted steps) (c, k).
Proof.
  intros Hpre Hrc Hq.
  destruct (run_preserves cfg f steps init (Inv_init cfg f) Hpre) as [HI _].
  pose proof (cells_are_spec steps (c, k) Hpre) as HC.
  pose proof (apply_txs_cnt (accepted steps) (fun _ : loc => None) (fun _ : loc => 0) (c, k) Hrc eq_refl) as HR.
  rewrite <- HC in HR. set (s := run cfg init steps) in *.
  pose proof HI as (_ & [_ Hov] & _).
  unfold LC in HR. rewrite Hq in HR. cbn [map] in HR. unfold apply_txs in HR; cbn [fold_left] in HR.
  unfold get, stored_rc. rewrite Hov, Hq. cbn. fold (lread s (c, k)).
  destruct (lread s (c, k)) as [[v0 rc0]|]; cbn [R option_map] in *.
  - destruct HR as [-> Hp]. split; [split; [intros _; exact Hp|discriminate]|reflexivity].
  - rewrite HR. split; [split; [intros H; contradiction H; reflexivity|lia]|reflexivity].
Qed.
End Rc.

(* ---- C08 at the level of the pipeline model ---- *)
Theorem rejected_no_trace cfg s t : snd (commit cfg s t) <> 0 -> fst (commit cfg s t) = s.
Proof. unfold commit. destruct (bg_err s); [reflexivity|]. destruct (tx_valid cfg t); cbn; [intros H; contradiction H; reflexivity|reflexivity]. Qed.

Theorem bg_error_refusal cfg s t : bg_err s = true -> commit cfg s t = (s, 3).
Proof. intros H. unfold commit. rewrite H. reflexivity. Qed.

Theorem rejected_not_accepted cfg s t : snd (commit cfg s t) <> 0 -> bg_err s = false -> tx_valid cfg t = false.
Proof. unfold commit. intros H Hb. rewrite Hb in H. destruct (tx_valid cfg t); [contradiction H; reflexivity|reflexivity]. Qed.
