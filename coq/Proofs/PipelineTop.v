(* Commit-overlay layer and the end-to-end statement: for every history of commits and pipeline
   steps, a point read on a column without reference counting returns the last accepted write. *)
From Coq Require Import NArith List Bool Lia.
From PDB Require Import Model.Pipeline Model.PipelineSpec Proofs.PipelineBase Proofs.PipelineLog.
Import ListNotations.
Open Scope N_scope.

(* ---- commit overlay entries of a transaction ---- *)
Definition entry_of (cfg : list ccfg) (co : col * op) : list (loc * option val) :=
  match covl_entry (cfg_of cfg (fst co)) (snd co) with
  | Some e => [((fst co, op_key (snd co)), e)]
  | None => []
  end.
Definition entries (cfg : list ccfg) (t : tx) : list (loc * option val) := flat_map (entry_of cfg) t.

Lemma copy_to_overlay_look cfg cid t : forall ov0 l,
  look (copy_to_overlay cfg cid t ov0) l =
  match lastw (entries cfg t) l with Some e => Some (cid, e) | None => look ov0 l end.
Proof.
  induction t as [|[c o] t IH]; intros ov0 l; cbn [copy_to_overlay entries flat_map]; [reflexivity|].
  rewrite IH. fold (entries cfg t). rewrite lastw_app. destruct (lastw (entries cfg t) l); [reflexivity|].
  unfold entry_of. cbn [fst snd]. destruct (covl_entry (cfg_of cfg c) o) as [e|]; [|reflexivity].
  rewrite look_put. cbn [lastw]. destruct (loc_eqb (c, op_key o) l); reflexivity.
Qed.

Definition touches (co : col * op) (l : loc) : bool :=
  match snd co with ORef _ => false | _ => loc_eqb (fst co, op_key (snd co)) l end.
Definition touched (t : tx) (l : loc) : bool := existsb (fun co => touches co l) t.

Lemma clean_overlay_look cid t : forall ov0 l,
  look (clean_overlay cid t ov0) l =
  match look ov0 l with
  | Some (i, e) => if (i =? cid) && touched t l then None else Some (i, e)
  | None => None
  end.
Proof.
  induction t as [|[c o] t IH]; intros ov0 l; cbn [clean_overlay touched existsb].
  - destruct (look ov0 l) as [[i e]|]; [rewrite andb_false_r|]; reflexivity.
  - rewrite IH. fold (touched t l). unfold touches; cbn [fst snd].
    destruct o as [k v|k|k]; cbn [op_key]; try (cbn [orb]; reflexivity);
    (destruct (look ov0 (c, k)) as [[i0 e0]|] eqn:E0;
     [ destruct (i0 =? cid) eqn:Ei;
       [ rewrite look_del; destruct (loc_eqb_spec (c, k) l) as [<-|Hne];
         [ rewrite E0, Ei; reflexivity | cbn [orb]; reflexivity ]
       | destruct (look ov0 l) as [[i e]|] eqn:El; [|reflexivity];
         destruct (loc_eqb_spec (c, k) l) as [<-|Hne]; cbn [orb]; [|reflexivity];
         rewrite E0 in El; injection El as <- <-; rewrite Ei; reflexivity ]
     | destruct (look ov0 l) as [[i e]|] eqn:El; [|reflexivity];
       destruct (loc_eqb_spec (c, k) l) as [<-|Hne]; cbn [orb]; [congruence|reflexivity] ]).
Qed.

Lemma entries_touched cfg t l : lastw (entries cfg t) l <> None -> touched t l = true.
Proof.
  induction t as [|[c o] t IH]; cbn [entries flat_map touched existsb]; [intros H; contradiction H; reflexivity|].
  fold (entries cfg t) (touched t l). rewrite lastw_app. intros H.
  destruct (lastw (entries cfg t) l) eqn:E; [rewrite IH by discriminate; apply orb_true_r|].
  unfold entry_of, touches in *. cbn [fst snd] in *.
  destruct o as [k v|k|k]; cbn [covl_entry op_key] in *.
  - cbn [lastw] in H. destruct (loc_eqb (c, k) l); [reflexivity|contradiction H; reflexivity].
  - destruct (c_rc (cfg_of cfg c)); cbn [lastw] in H; [contradiction H; reflexivity|].
    destruct (loc_eqb (c, k) l); [reflexivity|contradiction H; reflexivity].
  - contradiction H; reflexivity.
Qed.

Definition qwr (cfg : list ccfg) (q : N * tx) : list (loc * option val) := entries cfg (snd q).
Definition last_queued (cfg : list ccfg) (Q : list (N * tx)) (l : loc) := last_tagged fst (qwr cfg) Q l.

Definition InvOv (cfg : list ccfg) (s : pstate) : Prop :=
  incr_lt fst 1 (queue s) (next_cid s + 1) /\ forall l, look (ov s) l = last_queued cfg (queue s) l.

Lemma spec_tx_last cfg t : forall M l, c_rc (cfg_of cfg (fst l)) = false ->
  spec_tx M t l = match lastw (entries cfg t) l with Some e => e | None => M l end.
Proof.
  unfold spec_tx. induction t as [|[c o] t IH]; intros M l Hrc; cbn [fold_left entries flat_map]; [reflexivity|].
  fold (entries cfg t). rewrite IH by exact Hrc. rewrite lastw_app.
  destruct (lastw (entries cfg t) l); [reflexivity|].
  unfold entry_of, spec_op, updv; cbn [fst snd].
  destruct o as [k v|k|k]; cbn [covl_entry op_key lastw].
  - destruct (loc_eqb (c, k) l); reflexivity.
  - destruct (loc_eqb_spec (c, k) l) as [<-|Hne].
    + cbn [fst] in Hrc. rewrite Hrc. cbn [lastw]. rewrite loc_eqb_refl. reflexivity.
    + destruct (c_rc (cfg_of cfg c)); cbn [lastw]; [reflexivity|].
      destruct (loc_eqb_spec (c, k) l); [contradiction|reflexivity].
  - reflexivity.
Qed.

Lemma spec_txs_last cfg Q : forall M l, c_rc (cfg_of cfg (fst l)) = false ->
  spec_txs M (map snd Q) l = match last_queued cfg Q l with Some (_, e) => e | None => M l end.
Proof.
  unfold spec_txs, last_queued. induction Q as [|[cid t] Q IH]; intros M l Hrc; cbn [map fold_left]; [reflexivity|].
  rewrite IH by exact Hrc. rewrite last_tagged_cons.
  destruct (last_tagged fst (qwr cfg) Q l) as [[i e]|]; [reflexivity|].
  unfold acct, qwr. cbn [snd fst]. rewrite (spec_tx_last cfg) by exact Hrc.
  destruct (lastw (entries cfg t) l); reflexivity.
Qed.

Lemma spec_tx_local t : forall M M' l, M l = M' l -> spec_tx M t l = spec_tx M' t l.
Proof.
  unfold spec_tx. induction t as [|[c o] t IH]; intros M M' l H; cbn [fold_left]; [exact H|].
  apply IH. unfold spec_op, updv; cbn [fst snd]. destruct o; try exact H; destruct (loc_eqb _ l); try reflexivity; exact H.
Qed.
Lemma spec_txs_local ts : forall M M' l, M l = M' l -> spec_txs M ts l = spec_txs M' ts l.
Proof.
  unfold spec_txs. induction ts as [|t ts IH]; intros M M' l H; cbn [fold_left]; [exact H|].
  apply IH. apply spec_tx_local. exact H.
Qed.
Lemma spec_txs_app M a b : spec_txs M (a ++ b) = spec_txs (spec_txs M a) b.
Proof. unfold spec_txs. apply fold_left_app. Qed.
Lemma spec_txs_snoc M ts t : spec_txs M (ts ++ [t]) = spec_tx (spec_txs M ts) t.
Proof. unfold spec_txs. rewrite fold_left_app. reflexivity. Qed.

(* ---- preimage contract: on a preimage column the value is a function of the key ---- *)
Section Pre.
Variable cfg : list ccfg.
Variable f : loc -> val.

Notation op_pre := (PipelineSpec.op_pre cfg f).
Notation tx_pre := (PipelineSpec.tx_pre cfg f).
Definition Pre (M : loc -> cell) : Prop :=
  forall l v rc, c_preimage (cfg_of cfg (fst l)) = true -> M l = Some (v, rc) -> v = f l.

Definition omf (M : loc -> cell) : vmap := fun l => option_map fst (M l).

Lemma apply_op_spec M c o l : Pre M -> op_pre (c, o) -> c_rc (cfg_of cfg (fst l)) = false ->
  omf (upd M (c, op_key o) (apply_op (cfg_of cfg c) (M (c, op_key o)) o)) l = spec_op (omf M) (c, o) l.
Proof.
  intros HP Hop Hrc. unfold omf, upd, spec_op, updv, apply_op; cbn [fst snd].
  destruct o as [k v|k|k]; cbn [op_key plan_op].
  - destruct (loc_eqb_spec (c, k) l) as [<-|Hne]; [|reflexivity]. cbn [fst] in Hrc.
    destruct (M (c, k)) as [[v0 rc]|] eqn:E; [|reflexivity].
    rewrite Hrc. destruct (c_preimage (cfg_of cfg c)) eqn:Ep; [|reflexivity].
    cbn [option_map fst]. f_equal. rewrite (HP (c, k) v0 rc Ep E). symmetry. apply Hop. exact Ep.
  - destruct (loc_eqb_spec (c, k) l) as [<-|Hne]; [|reflexivity]. cbn [fst] in Hrc.
    destruct (M (c, k)) as [[v0 rc]|] eqn:E; [|reflexivity]. rewrite Hrc. reflexivity.
  - destruct (loc_eqb_spec (c, k) l) as [<-|Hne]; [|reflexivity]. cbn [fst] in Hrc.
    destruct (M (c, k)) as [[v0 rc]|] eqn:E; [|reflexivity]. rewrite Hrc. reflexivity.
Qed.

Lemma apply_op_pre M c o : Pre M -> op_pre (c, o) ->
  Pre (upd M (c, op_key o) (apply_op (cfg_of cfg c) (M (c, op_key o)) o)).
Proof.
  intros HP Hop l v rc Hpre. unfold upd. destruct (loc_eqb_spec (c, op_key o) l) as [<-|Hne]; [|apply HP; exact Hpre].
  cbn [fst] in Hpre. unfold apply_op. unfold op_pre in Hop; cbn [fst snd] in Hop.
  destruct o as [k v1|k|k]; cbn [op_key plan_op] in *.
  - destruct (M (c, k)) as [[v0 rc0]|] eqn:E.
    + destruct (c_rc (cfg_of cfg c)).
      * intros H; injection H as <- <-. apply (HP (c, k) v0 rc0 Hpre E).
      * rewrite Hpre. intros H; injection H as <- <-. apply (HP (c, k) v0 rc0 Hpre E).
    + intros H; injection H as <- <-. apply Hop. exact Hpre.
  - destruct (M (c, k)) as [[v0 rc0]|] eqn:E; [|discriminate].
    destruct (c_rc (cfg_of cfg c)); [destruct (1 <? rc0)|]; try discriminate.
    intros H; injection H as <- <-. apply (HP (c, k) v0 rc0 Hpre E).
  - destruct (M (c, k)) as [[v0 rc0]|] eqn:E; [|discriminate].
    destruct (c_rc (cfg_of cfg c)); intros H; injection H as <- <-; apply (HP (c, k) v0 rc0 Hpre E).
Qed.

Lemma apply_tx_spec t : forall M l, Pre M -> tx_pre t -> c_rc (cfg_of cfg (fst l)) = false ->
  omf (apply_tx cfg M t) l = spec_tx (omf M) t l /\ Pre (apply_tx cfg M t).
Proof.
  induction t as [|[c o] t IH]; intros M l HP Ht Hrc; cbn [apply_tx]; [split; [reflexivity|exact HP]|].
  inversion Ht as [|? ? Hop Ht']; subst.
  destruct (IH (upd M (c, op_key o) (apply_op (cfg_of cfg c) (M (c, op_key o)) o)) l
              (apply_op_pre M c o HP Hop) Ht' Hrc) as [I1 I2].
  split; [|exact I2]. rewrite I1. unfold spec_tx at 2. cbn [fold_left]. fold (spec_tx (spec_op (omf M) (c, o)) t).
  apply spec_tx_local. apply apply_op_spec; assumption.
Qed.

Lemma apply_tx_pre t : forall M, Pre M -> tx_pre t -> Pre (apply_tx cfg M t).
Proof.
  induction t as [|[c o] t IH]; intros M HP Ht; cbn [apply_tx]; [exact HP|].
  inversion Ht as [|? ? Hop Ht']; subst. apply IH; [apply apply_op_pre; assumption|exact Ht'].
Qed.

Lemma Pre_ext M M' : (forall l, M l = M' l) -> Pre M -> Pre M'.
Proof. intros H HP l v rc Hp E. rewrite <- H in E. eapply HP; eassumption. Qed.

(* ---- the invariant of the whole pipeline ---- *)
Definition qok (q : N * tx) : Prop := tx_valid cfg (snd q) = true /\ tx_pre (snd q).

Definition Inv (s : pstate) : Prop :=
  InvLog s /\ InvOv cfg s /\ bg_err s = false /\ Pre (lread s) /\ Forall qok (queue s).

(* logical value of every location: the accepted, not yet processed transactions on top of what the log layer shows *)
Definition LV (s : pstate) : vmap := spec_txs (omf (lread s)) (map snd (queue s)).

Lemma Inv_init : Inv init.
Proof.
  split; [apply InvLog_init|]. split; [split; [cbn; lia|intros l; reflexivity]|].
  split; [reflexivity|]. split; [intros l v rc _ H; discriminate H|constructor].
Qed.

Lemma get_is_LV s c k : Inv s -> c_rc (cfg_of cfg c) = false -> get s c k = LV s (c, k).
Proof.
  intros (_ & [_ Hov] & _) Hrc. unfold get, LV. rewrite (spec_txs_last cfg) by exact Hrc.
  rewrite Hov. destruct (last_queued cfg (queue s) (c, k)) as [[i e]|]; reflexivity.
Qed.

Lemma log_step_preserves s s' :
  Inv s -> InvLog s' -> (forall l, lread s' l = lread s l) -> same_front s s' ->
  Inv s' /\ (forall l, LV s' l = LV s l).
Proof.
  intros (HL & [Hq Hov] & Hbg & HP & HQ) HL' Hread (Eov & Eq & Ecid & Ebg).
  split.
  - split; [exact HL'|]. split; [split; rewrite Eq, ?Ecid, ?Eov; assumption|].
    split; [congruence|]. split; [|rewrite Eq; exact HQ].
    eapply Pre_ext; [|exact HP]. intros l; symmetry; apply Hread.
  - intros l. unfold LV. rewrite Eq. apply spec_txs_local. unfold omf. rewrite Hread. reflexivity.
Qed.

Lemma commit_preserves s t : Inv s -> tx_pre t ->
  let '(s', code) := commit cfg s t in
  Inv s' /\ (forall l, LV s' l = if code =? 0 then spec_tx (LV s) t l else LV s l)
  /\ (code = 0 <-> tx_valid cfg t = true).
Proof.
  intros HI Ht. pose proof HI as (HL & [Hq Hov] & Hbg & HP & HQ). unfold commit. rewrite Hbg.
  destruct (tx_valid cfg t) eqn:Ev; cbn [negb].
  - set (cid := next_cid s + 1).
    split; [|split; [|split; reflexivity]].
    + split; [exact HL|]. split.
      * split; cbn [queue next_cid ov].
        -- change (cid + 1) with (fst (cid, t) + 1). apply incr_lt_snoc. exact Hq.
        -- intros l. rewrite copy_to_overlay_look. unfold last_queued. rewrite last_tagged_snoc.
           unfold acct, qwr. cbn [fst snd]. destruct (lastw (entries cfg t) l); [reflexivity|apply Hov].
      * split; [reflexivity|]. split; [exact HP|]. cbn [queue]. apply Forall_app. split; [exact HQ|].
        constructor; [split; assumption|constructor].
    + intros l. cbn [N.eqb]. unfold LV. cbn [queue]. rewrite map_app. cbn [map snd].
      rewrite spec_txs_snoc. reflexivity.
  - split; [exact HI|]. split; [intros l; reflexivity|]. split; [discriminate|discriminate].
Qed.

Lemma process_preserves s : Inv s ->
  Inv (process cfg s) /\ (forall l, c_rc (cfg_of cfg (fst l)) = false -> LV (process cfg s) l = LV s l)
  /\ (length (queue (process cfg s)) = pred (length (queue s))).
Proof.
  intros HI. pose proof HI as (HL & [Hq Hov] & Hbg & HP & HQ).
  destruct (queue s) as [|[cid t] rest] eqn:Eq.
  - unfold process. rewrite Eq. split; [exact HI|]. split; [reflexivity|rewrite Eq; reflexivity].
  - destruct (process_props cfg s cid t rest HL Eq) as (HL' & Hread & Eq' & Eov' & Ecid' & Ebg' & _).
    pose proof (Forall_inv HQ) as [_ Htp]. pose proof (Forall_inv_tail HQ) as HQ'. cbn [snd] in Htp.
    assert (HP' : Pre (lread (process cfg s))).
    { eapply Pre_ext; [intros l; symmetry; apply Hread|].
      apply apply_tx_pre; assumption. }
    split; [|split].
    + split; [exact HL'|]. split.
      * split; [rewrite Eq', Ecid'; destruct Hq as [_ Hq]; eapply incr_lt_weaken; [|exact Hq]; lia|].
        intros l. rewrite Eov', clean_overlay_look, Hov, Eq'. unfold last_queued. rewrite last_tagged_cons.
        destruct (last_tagged fst (qwr cfg) rest l) as [[i e]|] eqn:E.
        -- pose proof (head_tag_distinct fst (qwr cfg) _ _ _ _ _ _ _ Hq E) as Hd. cbn [fst] in Hd. rewrite Hd. reflexivity.
        -- unfold acct, qwr. cbn [fst snd]. destruct (lastw (entries cfg t) l) eqn:El; [|reflexivity].
           rewrite N.eqb_refl, (entries_touched cfg t l) by (rewrite El; discriminate). reflexivity.
      * split; [congruence|]. split; [exact HP'|rewrite Eq'; exact HQ'].
    + intros l Hrc. unfold LV. rewrite Eq', Eq. cbn [map snd]. unfold spec_txs at 2. cbn [fold_left].
      fold (spec_txs (spec_tx (omf (lread s)) t) (map snd rest)).
      apply spec_txs_local. destruct (apply_tx_spec t (lread s) l HP Htp Hrc) as [I1 _].
      rewrite <- I1. unfold omf. rewrite Hread. reflexivity.
    + rewrite Eq'. reflexivity.
Qed.

Lemma process_all_preserves fuel : forall s, Inv s -> (length (queue s) <= fuel)%nat ->
  Inv (process_all cfg fuel s) /\ (forall l, c_rc (cfg_of cfg (fst l)) = false -> LV (process_all cfg fuel s) l = LV s l)
  /\ queue (process_all cfg fuel s) = [].
Proof.
  induction fuel as [|n IH]; intros s HI Hlen; cbn [process_all].
  - split; [exact HI|]. split; [reflexivity|]. destruct (queue s); [reflexivity|cbn [length] in Hlen; lia].
  - destruct (queue s) as [|q rest] eqn:Eq; [split; [exact HI|split; [reflexivity|exact Eq]]|].
    destruct (process_preserves s HI) as (H1 & H2 & H3).
    destruct (IH (process cfg s) H1) as (I1 & I2 & I3); [rewrite H3, Eq; cbn [length pred] in *; lia|].
    split; [exact I1|]. split; [|exact I3]. intros l Hrc. rewrite I2 by exact Hrc. apply H2. exact Hrc.
Qed.

Lemma kill_logs_preserves s : Inv s ->
  Inv (kill_logs cfg s) /\ (forall l, c_rc (cfg_of cfg (fst l)) = false -> LV (kill_logs cfg s) l = LV s l)
  /\ queue (kill_logs cfg s) = [].
Proof.
  intros H0. unfold kill_logs.
  destruct (enact_all_props s (proj1 H0)) as (a1 & a2 & a3 & _).
  destruct (log_step_preserves _ _ H0 a1 a2 a3) as [H1 L1]. set (s1 := enact_all s) in *.
  destruct (flush_props s1 (proj1 H1)) as (b1 & b2 & b3 & _).
  destruct (log_step_preserves _ _ H1 b1 b2 b3) as [H2 L2]. set (s2 := flush s1) in *.
  destruct (process_all_preserves (length (queue s2)) s2 H2 (le_n _)) as (H3 & L3 & Q3). set (s3 := process_all cfg _ s2) in *.
  destruct (enact_all_props s3 (proj1 H3)) as (c1 & c2 & c3 & _).
  destruct (log_step_preserves _ _ H3 c1 c2 c3) as [H4 L4]. set (s4 := enact_all s3) in *.
  destruct (flush_props s4 (proj1 H4)) as (d1 & d2 & d3 & _).
  destruct (log_step_preserves _ _ H4 d1 d2 d3) as [H5 L5]. set (s5 := flush s4) in *.
  destruct (enact_all_props s5 (proj1 H5)) as (e1 & e2 & e3 & _).
  destruct (log_step_preserves _ _ H5 e1 e2 e3) as [H6 L6]. set (s6 := enact_all s5) in *.
  destruct (clean_props s6 (proj1 H6)) as (f1 & f2 & f3 & _).
  destruct (log_step_preserves _ _ H6 f1 f2 f3) as [H7 L7].
  split; [exact H7|]. split.
  - intros l Hrc. rewrite L7, L6, L5, L4, L3, L2, L1 by exact Hrc. reflexivity.
  - destruct f3 as (_ & -> & _). destruct e3 as (_ & -> & _). destruct d3 as (_ & -> & _). destruct c3 as (_ & -> & _). exact Q3.
Qed.

Lemma reopen_preserves s : Inv s ->
  Inv (reopen cfg s) /\ (forall l, c_rc (cfg_of cfg (fst l)) = false -> LV (reopen cfg s) l = LV s l)
  /\ queue (reopen cfg s) = [] /\ leftover (reopen cfg s) = []
  /\ (forall l, tb_read (tb (reopen cfg s)) l = lread (kill_logs cfg s) l).
Proof.
  intros HI. pose proof HI as (_ & _ & Hbg & _). unfold reopen. rewrite Hbg.
  destruct (kill_logs_preserves s HI) as (HK & LK & QK). remember (kill_logs cfg s) as k eqn:Ek. clear Ek.
  pose proof HK as ([Kinc Klo] & _ & _ & KP & _).
  assert (Hread : forall l, tb_read (replay (leftover k) (tb k)) l = lread k l).
  { intros l. rewrite replay_read. unfold lread, lov_read. rewrite Klo. reflexivity. }
  split; [|split; [|split; [reflexivity|split; [reflexivity|exact Hread]]]].
  - split; [split; [|intros l; reflexivity]|].
    { unfold leftover. cbn [reading readq appending next_rid concat app incr_lt]. apply (incr_lt_bounds rid _ _ _ Kinc). }
    split; [split; [cbn [queue next_cid incr_lt]; lia|intros l; reflexivity]|]. split; [reflexivity|]. split; [|constructor].
    eapply Pre_ext; [|exact KP]. intros l. symmetry. unfold lread at 1, lov_read. cbn [lo tb look]. apply Hread.
  - intros l Hrc. rewrite <- LK by exact Hrc. unfold LV. cbn [queue map]. rewrite QK. cbn [map].
    unfold spec_txs; cbn [fold_left]. unfold omf, lread at 1, lov_read. cbn [lo tb look]. rewrite Hread. reflexivity.
Qed.

(* ---- histories ---- *)
Notation step_pre := (PipelineSpec.step_pre cfg f).
Notation accepted := (PipelineSpec.accepted cfg).

Lemma step_preserves s st : Inv s -> step_pre st ->
  Inv (fst (do_step cfg s st)) /\
  forall l, c_rc (cfg_of cfg (fst l)) = false ->
    LV (fst (do_step cfg s st)) l = spec_txs (LV s) (accepted [st]) l.
Proof.
  intros HI Hst. destruct st as [t| | | | | | |]; cbn [do_step fst accepted].
  - pose proof (commit_preserves s t HI Hst) as H. destruct (commit cfg s t) as [s' code]. cbn [fst].
    destruct H as (H1 & H2 & H3). split; [exact H1|]. intros l _. rewrite H2.
    destruct (tx_valid cfg t) eqn:Ev.
    + replace code with 0 by (symmetry; apply H3; reflexivity). reflexivity.
    + destruct (N.eqb_spec code 0) as [E|]; [apply H3 in E; discriminate|reflexivity].
  - destruct (process_preserves s HI) as (H1 & H2 & _). split; [exact H1|]. intros l Hrc. apply H2. exact Hrc.
  - destruct (flush_props s (proj1 HI)) as (a1 & a2 & a3 & _).
    destruct (log_step_preserves _ _ HI a1 a2 a3) as [H1 L1]. split; [exact H1|]. intros l _. apply L1.
  - destruct (enact_one_props s (proj1 HI)) as (a1 & a2 & a3 & _).
    destruct (log_step_preserves _ _ HI a1 a2 a3) as [H1 L1]. split; [exact H1|]. intros l _. apply L1.
  - destruct (enact_all_props s (proj1 HI)) as (a1 & a2 & a3 & _).
    destruct (log_step_preserves _ _ HI a1 a2 a3) as [H1 L1]. split; [exact H1|]. intros l _. apply L1.
  - destruct (clean_props s (proj1 HI)) as (a1 & a2 & a3 & _).
    destruct (log_step_preserves _ _ HI a1 a2 a3) as [H1 L1]. split; [exact H1|]. intros l _. apply L1.
  - destruct (reopen_preserves s HI) as (H1 & H2 & _). split; [exact H1|]. intros l Hrc. apply H2. exact Hrc.
  - split; [exact HI|]. intros l _. reflexivity.
Qed.

Lemma accepted_cons st steps : accepted (st :: steps) = accepted [st] ++ accepted steps.
Proof. destruct st; cbn [accepted app]; try reflexivity. destruct (tx_valid cfg t); reflexivity. Qed.

Lemma run_preserves steps : forall s, Inv s -> Forall step_pre steps ->
  Inv (run cfg s steps) /\
  forall l, c_rc (cfg_of cfg (fst l)) = false -> LV (run cfg s steps) l = spec_txs (LV s) (accepted steps) l.
Proof.
  induction steps as [|st steps IH]; intros s HI Hpre; cbn [run].
  - split; [exact HI|reflexivity].
  - inversion Hpre as [|? ? Hst Hrest]; subst.
    destruct (step_preserves s st HI Hst) as [H1 H2].
    destruct (IH _ H1 Hrest) as [I1 I2]. split; [exact I1|].
    intros l Hrc. rewrite I2 by exact Hrc. rewrite accepted_cons, spec_txs_app.
    apply spec_txs_local. apply H2. exact Hrc.
Qed.

Theorem reads_are_spec steps c k :
  Forall step_pre steps -> c_rc (cfg_of cfg c) = false ->
  get (run cfg init steps) c k = spec_txs (fun _ => None) (accepted steps) (c, k)
  /\ get_size (run cfg init steps) c k = option_map vlen (spec_txs (fun _ => None) (accepted steps) (c, k)).
Proof.
  intros Hpre Hrc. destruct (run_preserves steps init Inv_init Hpre) as [HI HL].
  assert (G : get (run cfg init steps) c k = spec_txs (fun _ => None) (accepted steps) (c, k)).
  { rewrite (get_is_LV _ c k HI Hrc). rewrite (HL (c, k) Hrc). apply spec_txs_local. reflexivity. }
  split; [exact G|]. unfold get_size. rewrite G. reflexivity.
Qed.

Lemma accepted_app a b : accepted (a ++ b) = accepted a ++ accepted b.
Proof. induction a as [|st a IH]; [reflexivity|]. cbn [app]. rewrite accepted_cons, (accepted_cons st a), IH, app_assoc. reflexivity. Qed.

(* clean shutdown and reopen: nothing queued, no log left, overlays empty, and the tables alone hold every accepted write *)
Theorem close_persists_all steps :
  Forall step_pre steps ->
  let s := run cfg init (steps ++ [SReopen]) in
  queue s = [] /\ leftover s = [] /\ ov s = [] /\ lo s = [] /\
  forall c k, c_rc (cfg_of cfg c) = false ->
    option_map fst (tb_read (tb s) (c, k)) = spec_txs (fun _ => None) (accepted steps) (c, k).
Proof.
  intros Hpre. assert (Hrun : forall a b s0, run cfg s0 (a ++ b) = run cfg (run cfg s0 a) b).
  { induction a as [|x a IH]; intros b s0; cbn [app run]; [reflexivity|apply IH]. }
  cbv zeta. rewrite Hrun. cbn [run do_step fst].
  destruct (run_preserves steps init Inv_init Hpre) as [HI HL]. set (s1 := run cfg init steps) in *.
  destruct (reopen_preserves s1 HI) as (HR & LR & QR & PR & TR).
  pose proof HI as (_ & _ & Hbg & _).
  split; [exact QR|]. split; [exact PR|].
  split; [unfold reopen; rewrite Hbg; reflexivity|]. split; [unfold reopen; rewrite Hbg; reflexivity|].
  intros c k Hrc.
  transitivity (LV (reopen cfg s1) (c, k)).
  - unfold LV. rewrite QR. cbn [map]. unfold spec_txs; cbn [fold_left]. unfold omf, lread, lov_read.
    replace (lo (reopen cfg s1)) with (@nil (loc * (N * cell))) by (unfold reopen; rewrite Hbg; reflexivity).
    reflexivity.
  - rewrite (LR (c, k) Hrc), (HL (c, k) Hrc). apply spec_txs_local. reflexivity.
Qed.
End Pre.
