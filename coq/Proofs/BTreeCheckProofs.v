(* Soundness of the btree dump checker: an accepted dump has its keys in strictly increasing order
   (in-order traversal), all inside the given bounds, and every leaf at the recorded depth. *)
From Coq Require Import NArith List Bool Lia.
From PDB Require Import Gen.Consts Model.BTreeCheck.
Import ListNotations.
Open Scope N_scope.

Fixpoint incr (l : list N) : Prop :=
  match l with
  | a :: ((b :: _) as r) => a < b /\ incr r
  | _ => True
  end.
Definition all_in (lo hi : N) (l : list N) : Prop := Forall (fun k => lo < k < hi) l.

Lemma incr_cons k l : (forall x, In x l -> k < x) -> incr l -> incr (k :: l).
Proof. destruct l as [|b l]; intros H Hi; cbn; [exact I|]. split; [apply H; left; reflexivity|exact Hi]. Qed.

Lemma incr_app a : forall b, incr a -> incr b -> (forall x y, In x a -> In y b -> x < y) -> incr (a ++ b).
Proof.
  induction a as [|x a IH]; intros b Ha Hb H; cbn [app]; [exact Hb|].
  destruct a as [|y a].
  - cbn [app]. apply incr_cons; [|exact Hb]. intros z Hz. apply H; [left; reflexivity|exact Hz].
  - cbn [app] in *. destruct Ha as [Hxy Ha]. split; [exact Hxy|].
    apply IH; [exact Ha|exact Hb|]. intros p q Hp Hq. apply H; [right; exact Hp|exact Hq].
Qed.

Lemma all_in_weaken lo hi lo' hi' l : lo' <= lo -> hi <= hi' -> all_in lo hi l -> all_in lo' hi' l.
Proof. intros H1 H2 H. unfold all_in in *. eapply Forall_impl; [|exact H]. cbn. intros; lia. Qed.

Definition good (lo hi : N) (t : bt) : Prop := incr (inorder t) /\ all_in lo hi (inorder t).

Definition flat (seps : list (N * option bt)) : list N :=
  flat_map (fun kc => fst kc :: match snd kc with Some c => inorder c | None => [] end) seps.

Lemma inorder_flat first seps :
  inorder (BNode first seps) = (match first with Some c => inorder c | None => [] end) ++ flat seps.
Proof.
  cbn [inorder]. f_equal. induction seps as [|[k c] seps IH]; [reflexivity|].
  unfold flat. cbn [flat_map fst snd app]. f_equal. f_equal. exact IH.
Qed.

(* the separators and the children to their right, given that accepted children are good *)
Lemma seps_good (check : N -> N -> option bt -> bool) hi :
  (forall lo' hi' c, check lo' hi' c = true -> match c with Some c' => good lo' hi' c' | None => True end) ->
  forall seps lo,
  (fix go (l : list (N * option bt)) (lo : N) : bool :=
     match l with
     | [] => true
     | (k, c) :: r =>
         in_range lo hi k &&
         check k (match r with (k', _) :: _ => k' | [] => hi end) c &&
         go r k
     end) seps lo = true ->
  incr (flat seps) /\ all_in lo hi (flat seps).
Proof.
  intros Hc. induction seps as [|[k c] seps IH]; intros lo H.
  - split; [exact I|constructor].
  - apply andb_true_iff in H as [H H3]. apply andb_true_iff in H as [H1 H2].
    unfold in_range in H1. apply andb_true_iff in H1 as [Hlo Hhi]. apply N.ltb_lt in Hlo, Hhi.
    destruct (IH k H3) as [I1 A1].
    set (nh := match seps with (k', _) :: _ => k' | [] => hi end) in *.
    assert (Hnh : k < nh /\ nh <= hi).
    { unfold nh. destruct seps as [|[k' c'] seps']; [lia|].
      cbn [flat flat_map fst] in A1. inversion A1; subst. lia. }
    pose proof (Hc k nh c H2) as Hch.
    cbn [flat flat_map fst snd]. fold (flat seps).
    assert (Hrest_gt : forall y, In y (flat seps) -> nh <= y).
    { unfold nh. destruct seps as [|[k' c'] seps']; [intros y []|].
      intros y Hy. cbn [flat flat_map fst snd] in Hy, I1. fold (flat seps') in *.
      destruct Hy as [<-|Hy]; [lia|].
      (* y comes after k' in an increasing list *)
      assert (G : forall l a, incr (a :: l) -> forall z, In z l -> a < z).
      { induction l as [|b l IHl]; intros a Hi z Hz; [destruct Hz|]. cbn in Hi. destruct Hi as [Hab Hi].
        destruct Hz as [<-|Hz]; [exact Hab|]. specialize (IHl b Hi z Hz). lia. }
      specialize (G _ _ I1 y Hy). lia. }
    destruct c as [c'|].
    + destruct Hch as [I2 A2]. split.
      * apply incr_cons.
        -- intros x Hx. apply in_app_or in Hx as [Hx|Hx].
           ++ unfold all_in in A2. rewrite Forall_forall in A2. specialize (A2 x Hx). lia.
           ++ specialize (Hrest_gt x Hx). lia.
        -- apply incr_app; [exact I2|exact I1|]. intros x y Hx Hy.
           unfold all_in in A2. rewrite Forall_forall in A2. specialize (A2 x Hx). specialize (Hrest_gt y Hy). lia.
      * constructor; [lia|]. apply Forall_app. split.
        -- eapply all_in_weaken; [| |exact A2]; lia.
        -- eapply all_in_weaken; [| |exact A1]; lia.
    + cbn [app]. split.
      * apply incr_cons; [|exact I1]. intros x Hx. specialize (Hrest_gt x Hx). lia.
      * constructor; [lia|]. eapply all_in_weaken; [| |exact A1]; lia.
Qed.

Theorem wf_sound : forall d t lo hi, wf_b d lo hi t = true -> good lo hi t.
Proof.
  induction d as [|d IHd]; intros [first seps] lo hi H; cbn [wf_b] in H;
    apply andb_true_iff in H as [H H3]; apply andb_true_iff in H as [_ H2]; unfold good; rewrite inorder_flat.
  - (* leaf *)
    destruct first; [discriminate|]. cbn [app].
    apply (seps_good (fun _ _ c => match c with None => true | Some _ => false end) hi); [|exact H3].
    intros lo' hi' [c|] Hc; [discriminate|exact I].
  - destruct first as [c|]; [|discriminate].
    pose proof (IHd c lo _ H2) as [I0 A0].
    destruct (seps_good (fun lo' hi' c => match c with Some c' => wf_b d lo' hi' c' | None => false end) hi
                (fun lo' hi' c Hc => match c as c0 return (match c0 with Some c' => wf_b d lo' hi' c' | None => false end = true ->
                                                    match c0 with Some c' => good lo' hi' c' | None => True end) with
                                     | Some c' => fun H => IHd c' lo' hi' H
                                     | None => fun _ => I end Hc) seps lo H3) as [I1 A1].
    set (fh := match seps with (k, _) :: _ => k | [] => hi end) in *.
    assert (Hfh : fh <= hi /\ forall y, In y (flat seps) -> fh <= y).
    { unfold fh. destruct seps as [|[k c'] seps']; [split; [lia|intros y []]|].
      cbn [flat flat_map fst snd] in A1, I1 |- *. fold (flat seps') in *. inversion A1; subst. split; [lia|].
      intros y [<-|Hy]; [lia|].
      assert (G : forall l a, incr (a :: l) -> forall z, In z l -> a < z).
      { induction l as [|b l IHl]; intros a Hi z Hz; [destruct Hz|]. cbn in Hi. destruct Hi as [Hab Hi].
        destruct Hz as [<-|Hz]; [exact Hab|]. specialize (IHl b Hi z Hz). lia. }
      specialize (G _ _ I1 y Hy). lia. }
    destruct Hfh as [Hf1 Hf2]. split.
    + apply incr_app; [exact I0|exact I1|]. intros x y Hx Hy.
      unfold all_in in A0. rewrite Forall_forall in A0. specialize (A0 x Hx). specialize (Hf2 y Hy). lia.
    + apply Forall_app. split; [eapply all_in_weaken; [| |exact A0]; lia|exact A1].
Qed.

(* ---- uniform depth ---- *)
Lemma depth_uniform : forall d t lo hi base, wf_b d lo hi t = true ->
  Forall (fun x => x = (base + d)%nat) (leaf_depths t base).
Proof.
  induction d as [|d IHd]; intros [first seps] lo hi base H; cbn [wf_b] in H;
    apply andb_true_iff in H as [H H3]; apply andb_true_iff in H as [_ H2]; cbn [leaf_depths].
  - destruct first; [discriminate|]. apply Forall_app. split; [constructor; [lia|constructor]|].
    clear H2. revert lo H3. induction seps as [|[k c] seps IH]; intros lo H3; [constructor|].
    apply andb_true_iff in H3 as [H3 H4]. apply andb_true_iff in H3 as [_ H3].
    destruct c; [discriminate|]. apply (IH k H4).
  - destruct first as [c|]; [|discriminate]. apply Forall_app. split.
    + replace (base + S d)%nat with (S base + d)%nat by lia. apply (IHd c lo _ (S base) H2).
    + clear H2. revert lo H3. induction seps as [|[k c'] seps IH]; intros lo H3; [constructor|].
      apply andb_true_iff in H3 as [H3 H4]. apply andb_true_iff in H3 as [_ H3].
      destruct c' as [c'|]; [|discriminate]. apply Forall_app. split.
      * replace (base + S d)%nat with (S base + d)%nat by lia. apply (IHd c' k _ (S base) H3).
      * apply (IH k H4).
Qed.
