From Coq Require Import NArith List Bool Lia.
From PDB Require Import Model.Pipeline Model.Migrate.
Import ListNotations.
Open Scope N_scope.

Lemma apply_ops_other dcf c ops : forall M k, (forall co, In co ops -> op_key (snd co) <> k) ->
  apply_ops dcf c ops M k = M k.
Proof.
  induction ops as [|[c' o] ops IH]; intros M k H; cbn [apply_ops]; [reflexivity|].
  rewrite IH by (intros co Hin; apply H; right; exact Hin).
  destruct (c' =? c); [|reflexivity]. destruct (N.eqb_spec k (op_key o)) as [->|]; [|reflexivity].
  exfalso. apply (H (c', o)); [left; reflexivity|reflexivity].
Qed.

(* n Sets of (k, v) on a cell that is empty or already holds v with count m *)
Lemma repeat_sets dcf c k v : forall n M m,
  (M k = if m =? 0 then None else Some (v, if c_rc dcf then m else 1)) ->
  apply_ops dcf c (repeat (c, OSet k v) n) M k =
  (if (m + N.of_nat n) =? 0 then None else Some (v, if c_rc dcf then m + N.of_nat n else 1)).
Proof.
  induction n as [|n IH]; intros M m HM; cbn [repeat apply_ops].
  - rewrite N.add_0_r. exact HM.
  - rewrite N.eqb_refl. cbn [op_key].
    rewrite (IH _ (m + 1)).
    + replace (m + 1 + N.of_nat n) with (m + N.of_nat (S n)) by lia. reflexivity.
    + cbn beta. rewrite N.eqb_refl. unfold dcell_step. rewrite HM.
      replace (m + 1 =? 0) with false by (symmetry; apply N.eqb_neq; lia).
      destruct (m =? 0) eqn:Em; cbn [plan_op].
      * apply N.eqb_eq in Em. subst m. destruct (c_rc dcf); reflexivity.
      * destruct (c_rc dcf); [reflexivity|]. destruct (c_preimage dcf); reflexivity.
Qed.

Lemma entry_ops_keys c k v rc co : In co (entry_ops c k v rc) -> co = (c, OSet k v).
Proof. unfold entry_ops. apply repeat_spec. Qed.

Lemma apply_ops_app dcf c a b M : apply_ops dcf c (a ++ b) M = apply_ops dcf c b (apply_ops dcf c a M).
Proof. revert M. induction a as [|[c' o] a IH]; intros M; cbn [app apply_ops]; [reflexivity|]. apply IH. Qed.

Fixpoint keys_distinct (src : scontent) : Prop :=
  match src with
  | [] => True
  | (k, _) :: rest => (forall e, In e rest -> fst e <> k) /\ keys_distinct rest
  end.

Theorem content_preserved dcf c : forall src k, keys_distinct src ->
  migrate_col dcf c src k =
  match lookup_src src k with Some (v, rc) => expected dcf v rc | None => None end.
Proof.
  unfold migrate_col, migrate_ops.
  assert (G : forall src M k, keys_distinct src -> (forall e, In e src -> M (fst e) = None) ->
     apply_ops dcf c (flat_map (fun e => entry_ops c (fst e) (fst (snd e)) (snd (snd e))) src) M k =
     match lookup_src src k with Some (v, rc) => expected dcf v rc | None => M k end).
  { induction src as [|[k0 [v0 rc0]] src IH]; intros M k Hd Hfresh; cbn [flat_map lookup_src fst snd]; [reflexivity|].
    destruct Hd as [Hne Hd]. rewrite apply_ops_app.
    set (M1 := apply_ops dcf c (entry_ops c k0 v0 rc0) M).
    assert (Hk0 : M1 k0 = expected dcf v0 rc0).
    { unfold M1, entry_ops. rewrite (repeat_sets dcf c k0 v0 (N.to_nat rc0) M 0).
      - rewrite N.add_0_l, N2Nat.id. reflexivity.
      - cbn. apply (Hfresh (k0, (v0, rc0))). left. reflexivity. }
    assert (Hother : forall x, x <> k0 -> M1 x = M x).
    { intros x Hx. unfold M1. apply apply_ops_other. intros co Hin. apply entry_ops_keys in Hin. subst co. cbn. congruence. }
    rewrite IH; [| exact Hd |].
    - destruct (N.eqb_spec k0 k) as [->|Hk].
      + assert (Hl : lookup_src src k = None).
        { clear -Hne. induction src as [|[k1 x] src IH]; [reflexivity|]. cbn [lookup_src].
          destruct (N.eqb_spec k1 k) as [->|]; [exfalso; apply (Hne (k, x)); [left; reflexivity|reflexivity]|].
          apply IH. intros e Hin. apply Hne. right. exact Hin. }
        rewrite Hl. exact Hk0.
      + destruct (lookup_src src k) as [[v rc]|]; [reflexivity|]. apply Hother. congruence.
    - intros e Hin. rewrite Hother by (apply Hne; exact Hin). apply Hfresh. right. exact Hin. }
  intros src k Hd. rewrite G; [|exact Hd|reflexivity]. destruct (lookup_src src k) as [[v rc]|]; reflexivity.
Qed.
