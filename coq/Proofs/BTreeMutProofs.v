(* C04 (mutation): setting a key in the on-disk btree - descent by the recorded depth, insertion, split
   of full nodes at the median, a new root when the root splits - keeps the tree well shaped (every leaf
   at the recorded depth, one more child than keys in every inner node, at most ORDER keys per node) and
   makes its in-order key sequence exactly the old one with the key put in its place. *)
From Coq Require Import NArith List Bool Arith Lia Sorted.
From PDB Require Import Gen.Consts Model.BTreeMut.
Import ListNotations.
Open Scope N_scope.

(* ---- in-order traversal ---- *)
Fixpoint interleave (cs : list (list N)) (ks : list N) : list N :=
  match cs, ks with
  | c :: cs', k :: ks' => c ++ k :: interleave cs' ks'
  | c :: _, [] => c
  | [], _ => []
  end.
Fixpoint inorder (d : nat) (t : btn) : list N :=
  match t with
  | BT ks cs => match d with O => ks | S d' => interleave (map (inorder d') cs) ks end
  end.
Fixpoint shape (d : nat) (t : btn) : Prop :=
  match t with
  | BT ks cs =>
      (length ks <= order)%nat /\
      match d with O => cs = [] | S d' => length cs = S (length ks) /\ Forall (shape d') cs end
  end.

(* ---- the specification on sorted lists ---- *)
Definition below (k : N) (l : list N) : list N := filter (fun x => x <? k) l.
Definition above (k : N) (l : list N) : list N := filter (fun x => k <? x) l.
Definition spec_ins (k : N) (l : list N) : list N := below k l ++ k :: above k l.
Definition sorted (l : list N) : Prop := StronglySorted N.lt l.

Lemma below_app k a b : below k (a ++ b) = below k a ++ below k b.
Proof. apply filter_app. Qed.
Lemma above_app k a b : above k (a ++ b) = above k a ++ above k b.
Proof. apply filter_app. Qed.
Lemma below_all k l : (forall x, In x l -> x < k) -> below k l = l /\ above k l = [].
Proof.
  unfold below, above. induction l as [|a l IH]; intros H; [split; reflexivity|]. cbn [filter].
  assert (Ha : a < k) by (apply H; left; reflexivity). destruct (IH (fun x Hx => H x (or_intror Hx))) as [I1 I2].
  destruct (N.ltb_spec a k); [|lia]. destruct (N.ltb_spec k a); [lia|]. rewrite I1, I2. split; reflexivity.
Qed.
Lemma above_all k l : (forall x, In x l -> k < x) -> below k l = [] /\ above k l = l.
Proof.
  unfold below, above. induction l as [|a l IH]; intros H; [split; reflexivity|]. cbn [filter].
  assert (Ha : k < a) by (apply H; left; reflexivity). destruct (IH (fun x Hx => H x (or_intror Hx))) as [I1 I2].
  destruct (N.ltb_spec a k); [lia|]. destruct (N.ltb_spec k a); [|lia]. rewrite I1, I2. split; reflexivity.
Qed.

Lemma sorted_app_inv a b : sorted (a ++ b) -> sorted a /\ sorted b /\ forall x y, In x a -> In y b -> x < y.
Proof.
  induction a as [|x a IH]; cbn; intros H; [split; [constructor|split; [exact H|intros ? ? []]]|].
  inversion H as [|? ? Hs Hf]; subst. destruct (IH Hs) as [Ha [Hb Hab]]. rewrite Forall_forall in Hf.
  split; [constructor; [exact Ha|apply Forall_forall; intros y Hy; apply Hf; apply in_or_app; left; exact Hy]|].
  split; [exact Hb|]. intros x0 y [<-|Hx0] Hy; [apply Hf; apply in_or_app; right; exact Hy|exact (Hab x0 y Hx0 Hy)].
Qed.
Lemma sorted_app a b : sorted a -> sorted b -> (forall x y, In x a -> In y b -> x < y) -> sorted (a ++ b).
Proof.
  induction a as [|x a IH]; cbn; intros Ha Hb H; [exact Hb|]. inversion Ha as [|? ? Hs Hf]; subst.
  constructor; [apply IH; [exact Hs|exact Hb|intros; apply H; [right|]; assumption]|].
  apply Forall_app. split; [exact Hf|]. apply Forall_forall. intros y Hy. apply H; [left; reflexivity|exact Hy].
Qed.

(* the key is already there: nothing changes; otherwise it lands between the smaller and the larger keys *)
Lemma spec_ins_mid k a b : (forall x, In x a -> x < k) -> (forall x, In x b -> k < x) -> spec_ins k (a ++ b) = a ++ k :: b.
Proof.
  intros Ha Hb. unfold spec_ins. rewrite below_app, above_app.
  destruct (below_all k a Ha) as [-> ->]. destruct (above_all k b Hb) as [-> ->]. rewrite app_nil_r. reflexivity.
Qed.
Lemma spec_ins_present k a b : (forall x, In x a -> x < k) -> (forall x, In x b -> k < x) -> spec_ins k (a ++ k :: b) = a ++ k :: b.
Proof.
  intros Ha Hb. unfold spec_ins. rewrite below_app, above_app.
  destruct (below_all k a Ha) as [E1 E2]. destruct (above_all k b Hb) as [E3 E4].
  unfold below, above in *. cbn [filter]. rewrite N.ltb_irrefl, E1, E2, E3, E4, app_nil_r. reflexivity.
Qed.
(* ... and inside a sorted concatenation only the middle part is touched *)
Lemma spec_ins_inner k a m b : (forall x, In x a -> x < k) -> (forall x, In x b -> k < x) ->
  spec_ins k (a ++ m ++ b) = a ++ spec_ins k m ++ b.
Proof.
  intros Ha Hb. unfold spec_ins. rewrite !below_app, !above_app.
  destruct (below_all k a Ha) as [-> ->]. destruct (above_all k b Hb) as [-> ->].
  rewrite app_nil_r. cbn. rewrite <- !app_assoc. reflexivity.
Qed.
Lemma filter_sorted (f : N -> bool) l : sorted l -> sorted (filter f l).
Proof.
  induction 1 as [|a l Hs IH Hf]; cbn; [constructor|]. destruct (f a); [|exact IH].
  constructor; [exact IH|]. rewrite Forall_forall in *. intros x Hx. apply filter_In in Hx as [Hx _]. exact (Hf x Hx).
Qed.
Lemma spec_ins_sorted k l : sorted l -> sorted (spec_ins k l).
Proof.
  intros Hs. unfold spec_ins, below, above.
  apply sorted_app; [apply filter_sorted; exact Hs| |].
  - constructor; [apply filter_sorted; exact Hs|]. apply Forall_forall. intros x Hx. apply filter_In in Hx as [_ Hx]. apply N.ltb_lt. exact Hx.
  - intros x y Hx [<-|Hy].
    + apply filter_In in Hx as [_ Hx]. apply N.ltb_lt. exact Hx.
    + apply filter_In in Hx as [_ Hx]. apply filter_In in Hy as [_ Hy]. apply N.ltb_lt in Hx, Hy. lia.
Qed.

(* ---- Node::position on a sorted key list ---- *)
Lemma position_spec k : forall ks n b i, sorted ks -> position k ks n = (b, i) ->
  (n <= i)%nat /\ (i - n <= length ks)%nat /\
  (forall x, In x (firstn (i - n) ks) -> x < k) /\
  (if b then nth_error ks (i - n) = Some k /\ (forall x, In x (skipn (S (i - n)) ks) -> k < x)
   else forall x, In x (skipn (i - n) ks) -> k < x).
Proof.
  induction ks as [|x ks IH]; intros n b i Hs H; cbn in H.
  - injection H as <- <-. rewrite Nat.sub_diag. cbn. repeat split; try lia; intros ? [].
  - inversion Hs as [|? ? Hs' Hf]; subst. rewrite Forall_forall in Hf.
    destruct (N.ltb_spec k x) as [Hlt|Hge].
    + injection H as <- <-. rewrite Nat.sub_diag. cbn [firstn skipn]. repeat split; try lia; [intros ? []|].
      intros y [<-|Hy]; [exact Hlt|]. specialize (Hf y Hy). lia.
    + destruct (N.eqb_spec k x) as [->|Hne].
      * injection H as <- <-. rewrite Nat.sub_diag. cbn [firstn skipn nth_error]. repeat split; try lia; [intros ? []|].
        intros y Hy. exact (Hf y Hy).
      * apply IH in H as [H1 [H2 [H3 H4]]]; [|exact Hs']. replace (i - n)%nat with (S (i - S n)) by lia.
        split; [lia|]. split; [cbn [length]; lia|]. split.
        -- cbn [firstn]. intros y [<-|Hy]; [lia|exact (H3 y Hy)].
        -- destruct b; cbn [skipn nth_error]; exact H4.
Qed.

(* ---- list surgery ---- *)
Definition zipA (cs : list (list N)) (ks : list N) : list N := flat_map (fun p => fst p ++ [snd p]) (combine cs ks).
Lemma interleave_app cs1 : forall ks1 cs2 ks2, length cs1 = length ks1 ->
  interleave (cs1 ++ cs2) (ks1 ++ ks2) = zipA cs1 ks1 ++ interleave cs2 ks2.
Proof.
  induction cs1 as [|c cs1 IH]; intros [|k ks1] cs2 ks2 H; cbn in *; try discriminate; [reflexivity|].
  rewrite IH by lia. unfold zipA. cbn. rewrite <- !app_assoc. reflexivity.
Qed.
Lemma zipA_app cs1 : forall ks1 cs2 ks2, length cs1 = length ks1 -> zipA (cs1 ++ cs2) (ks1 ++ ks2) = zipA cs1 ks1 ++ zipA cs2 ks2.
Proof.
  induction cs1 as [|c cs1 IH]; intros [|k ks1] cs2 ks2 H; cbn in *; try discriminate; [reflexivity|].
  unfold zipA in *. cbn. rewrite IH by lia. rewrite <- !app_assoc. reflexivity.
Qed.

Lemma firstn_skipn_len {A} (i : nat) (l : list A) : (i <= length l)%nat -> length (firstn i l) = i.
Proof. intros H. rewrite firstn_length. lia. Qed.

Lemma skipn_cons_nth {A} (d : A) : forall i (l : list A), (i < length l)%nat -> skipn i l = nth i l d :: skipn (S i) l.
Proof. induction i as [|i IH]; intros [|x l] H; cbn in *; try lia; [reflexivity|apply IH; lia]. Qed.

(* the traversal of an inner node around child i *)
Lemma interleave_at cs ks i : length cs = S (length ks) -> (i <= length ks)%nat ->
  interleave cs ks = zipA (firstn i cs) (firstn i ks) ++ nth i cs [] ++
                     match skipn i ks with [] => [] | k :: ks' => k :: interleave (skipn (S i) cs) ks' end.
Proof.
  intros Hl Hi. rewrite <- (firstn_skipn i cs) at 1. rewrite <- (firstn_skipn i ks) at 1.
  rewrite interleave_app by (rewrite !firstn_length; lia). f_equal.
  rewrite (skipn_cons_nth [] i cs) by lia. cbn [interleave]. destruct (skipn i ks); [rewrite app_nil_r|]; reflexivity.
Qed.

Lemma order_val : order = 8%nat /\ middle = 4%nat.
Proof. split; vm_compute; reflexivity. Qed.

Lemma firstn_S_nth {A} (d : A) : forall i (l : list A), (i < length l)%nat -> firstn (S i) l = firstn i l ++ [nth i l d].
Proof. induction i as [|i IH]; intros [|x l] H; cbn in *; try lia; [reflexivity|rewrite IH by lia; reflexivity]. Qed.

(* the median split of an inner node *)
Lemma interleave_median cs ks m : length cs = S (length ks) -> (m < length ks)%nat ->
  interleave cs ks = interleave (firstn (S m) cs) (firstn m ks) ++ nth m ks 0 :: interleave (skipn (S m) cs) (skipn (S m) ks).
Proof.
  intros Hl Hm. rewrite (interleave_at cs ks m Hl) by lia. rewrite (skipn_cons_nth 0 m ks Hm).
  rewrite (firstn_S_nth [] m cs) by lia.
  replace (firstn m ks) with (firstn m ks ++ []) at 2 by apply app_nil_r.
  rewrite interleave_app by (rewrite !firstn_length; lia). cbn [interleave]. rewrite <- app_assoc. reflexivity.
Qed.

(* ---- set_at / insert_at ---- *)
Lemma set_at_length {A} i (x : A) l : (i < length l)%nat -> length (set_at i x l) = length l.
Proof. intros H. unfold set_at. rewrite app_length, firstn_length. cbn [length]. rewrite skipn_length. lia. Qed.
Lemma insert_at_length {A} i (x : A) l : (i <= length l)%nat -> length (insert_at i x l) = S (length l).
Proof. intros H. unfold insert_at. rewrite app_length, firstn_length. cbn [length]. rewrite skipn_length. lia. Qed.
Lemma map_set_at {A B} (f : A -> B) i x l : map f (set_at i x l) = set_at i (f x) (map f l).
Proof. unfold set_at. rewrite map_app. cbn [map]. rewrite firstn_map, skipn_map. reflexivity. Qed.
Lemma set_at_forall {A} (P : A -> Prop) i x l : Forall P l -> P x -> Forall P (set_at i x l).
Proof.
  intros Hl Hx. unfold set_at. rewrite Forall_forall in Hl. apply Forall_app. split.
  - apply Forall_forall. intros y Hy. apply Hl. rewrite <- (firstn_skipn i l). apply in_or_app. left. exact Hy.
  - constructor; [exact Hx|]. apply Forall_forall. intros y Hy. apply Hl. rewrite <- (firstn_skipn (S i) l). apply in_or_app. right. exact Hy.
Qed.

Lemma sorted_le_last l : sorted l -> forall x, In x l -> x <= last l 0.
Proof.
  induction 1 as [|a l Hs IH Hf]; intros x Hx; [destruct Hx|]. rewrite Forall_forall in Hf.
  destruct l as [|b l]; [destruct Hx as [<-|[]]; cbn; lia|].
  change (last (a :: b :: l) 0) with (last (b :: l) 0).
  destruct Hx as [<-|Hx]; [|exact (IH x Hx)]. specialize (IH b (or_introl eq_refl)). specialize (Hf b (or_introl eq_refl)). lia.
Qed.
Lemma last_app_single {A} (l : list A) x d : last (l ++ [x]) d = x.
Proof. apply last_last. Qed.
Lemma zipA_last cs1 : forall ks1, length cs1 = length ks1 -> ks1 <> [] -> last (zipA cs1 ks1) 0 = last ks1 0.
Proof.
  intros ks1 Hl Hne. destruct (exists_last Hne) as [ks0 [k ->]].
  assert (Hc : cs1 <> []) by (destruct cs1; [rewrite app_length in Hl; cbn in Hl; lia|discriminate]).
  destruct (exists_last Hc) as [cs0 [c ->]]. rewrite !app_length in Hl. cbn in Hl.
  rewrite zipA_app by lia. unfold zipA at 2. cbn. rewrite app_nil_r, app_assoc, !last_app_single. reflexivity.
Qed.
Lemma inorder_empty d : inorder d empty_node = [].
Proof. destruct d; reflexivity. Qed.

Definition flat (d : nat) (r : btn * option (N * btn)) : list N :=
  match r with
  | (t, None) => inorder d t
  | (t, Some (s, rt)) => inorder d t ++ s :: inorder d rt
  end.
Definition shape_res (d : nat) (r : btn * option (N * btn)) : Prop :=
  shape d (fst r) /\ match snd r with None => True | Some (_, rt) => shape d rt end.

Lemma firstn_middle_nth (l : list N) m : (m < length l)%nat -> firstn m l ++ nth m l 0 :: skipn (S m) l = l.
Proof. intros H. rewrite <- (firstn_skipn m l) at 4. rewrite (skipn_cons_nth 0 m l H). reflexivity. Qed.

(* splitting keeps the traversal and gives two well-shaped nodes *)
Lemma split_leaf ks : (length ks <= S order)%nat -> flat 0 (split_if_full ks []) = ks /\ shape_res 0 (split_if_full ks []).
Proof.
  destruct order_val as [Ho Hm]. intros Hl. unfold split_if_full. destruct (Nat.ltb_spec order (length ks)) as [Hfull|Hnot].
  - cbn [flat inorder]. split; [apply firstn_middle_nth; lia|]. split; cbn [fst snd shape].
    + split; [rewrite firstn_length; lia|destruct (S middle); reflexivity].
    + split; [rewrite skipn_length; lia|destruct (S middle); reflexivity].
  - cbn [flat inorder]. split; [reflexivity|]. split; cbn [fst snd shape]; [split; [lia|reflexivity]|exact I].
Qed.
Lemma split_inner d ks cs : (length ks <= S order)%nat -> length cs = S (length ks) -> Forall (shape d) cs ->
  flat (S d) (split_if_full ks cs) = interleave (map (inorder d) cs) ks /\ shape_res (S d) (split_if_full ks cs).
Proof.
  destruct order_val as [Ho Hm]. intros Hl Hc Hs. unfold split_if_full. destruct (Nat.ltb_spec order (length ks)) as [Hfull|Hnot].
  - cbn [flat inorder]. split.
    + rewrite (interleave_median (map (inorder d) cs) ks middle) by (rewrite ?map_length; lia).
      rewrite firstn_map, skipn_map. reflexivity.
    + assert (HF1 : Forall (shape d) (firstn (S middle) cs)).
      { rewrite Forall_forall in *. intros x Hx. apply Hs. rewrite <- (firstn_skipn (S middle) cs). apply in_or_app. left. exact Hx. }
      assert (HF2 : Forall (shape d) (skipn (S middle) cs)).
      { rewrite Forall_forall in *. intros x Hx. apply Hs. rewrite <- (firstn_skipn (S middle) cs). apply in_or_app. right. exact Hx. }
      split; cbn [fst snd shape].
      * split; [rewrite firstn_length; lia|]. split; [rewrite !firstn_length; lia|exact HF1].
      * split; [rewrite skipn_length; lia|]. split; [rewrite !skipn_length; lia|exact HF2].
  - cbn [flat inorder]. split; [reflexivity|]. split; cbn [fst snd shape]; [|exact I]. split; [lia|]. split; assumption.
Qed.

(* ---- insertion ---- *)
Lemma nth_set_at {A} i (x : A) l d : (i < length l)%nat -> nth i (set_at i x l) d = x.
Proof.
  intros H. unfold set_at. rewrite app_nth2 by (rewrite firstn_length; lia). rewrite firstn_length.
  replace (i - Nat.min i (length l))%nat with O by lia. reflexivity.
Qed.
Lemma firstn_set_at {A} i (x : A) l : (i <= length l)%nat -> firstn i (set_at i x l) = firstn i l.
Proof.
  intros H. unfold set_at. rewrite firstn_app, firstn_length. replace (i - Nat.min i (length l))%nat with O by lia.
  rewrite firstn_O, app_nil_r, firstn_firstn. f_equal. lia.
Qed.
Lemma skipn_set_at {A} i (x : A) l : (i < length l)%nat -> skipn (S i) (set_at i x l) = skipn (S i) l.
Proof.
  intros H. unfold set_at. rewrite skipn_app, firstn_length. replace (S i - Nat.min i (length l))%nat with 1%nat by lia.
  rewrite skipn_all2 by (rewrite firstn_length; lia). reflexivity.
Qed.

Lemma ins_spec : forall d k t, shape d t -> sorted (inorder d t) ->
  flat d (ins d k t) = spec_ins k (inorder d t) /\ shape_res d (ins d k t).
Proof.
  destruct order_val as [Ho Hm].
  induction d as [|d IH]; intros k [ks cs] Hsh Hso; cbn [shape] in Hsh; destruct Hsh as [Hlen Hsh].
  - (* a leaf *)
    subst cs. cbn [inorder] in Hso. cbn [ins]. destruct (position k ks 0) as [b i] eqn:Ep.
    destruct (position_spec k ks 0 b i Hso Ep) as [_ [Hi [Hlt Hrest]]]. rewrite Nat.sub_0_r in *.
    destruct b.
    + destruct Hrest as [Hn Hgt]. cbn [flat inorder]. split; [|split; cbn [fst snd shape]; [split; [exact Hlen|reflexivity]|exact I]].
      assert (Hi' : (i < length ks)%nat) by (apply nth_error_Some; rewrite Hn; discriminate).
      assert (E : firstn i ks ++ k :: skipn (S i) ks = ks).
      { rewrite <- (firstn_skipn i ks) at 3. rewrite (skipn_cons_nth 0 i ks Hi'), (nth_error_nth ks i 0 Hn). reflexivity. }
      rewrite <- E at 2. rewrite spec_ins_present by assumption. symmetry. exact E.
    + assert (Hins : insert_at i k ks = spec_ins k ks).
      { rewrite <- (firstn_skipn i ks) at 2. rewrite spec_ins_mid by assumption. reflexivity. }
      destruct (split_leaf (insert_at i k ks)) as [Hf Hs]; [rewrite insert_at_length by lia; lia|].
      cbn [inorder]. rewrite Hf. split; [exact Hins|exact Hs].
  - (* an inner node *)
    destruct Hsh as [Hcl Hcs]. cbn [inorder] in Hso. cbn [ins]. destruct (position k ks 0) as [b i] eqn:Ep.
    assert (Hks : sorted ks).
    { clear -Hso Hcl. revert cs Hcl Hso. induction ks as [|x ks IHk]; intros cs Hcl Hso; [constructor|].
      destruct cs as [|c cs]; [discriminate|]. cbn [map interleave] in Hso.
      apply sorted_app_inv in Hso as [_ [Hso _]]. inversion Hso as [|? ? Hs' Hf]; subst.
      destruct cs as [|c2 cs]; [cbn in Hcl; lia|]. constructor.
      - apply (IHk (c2 :: cs)); [cbn in *; lia|exact Hs'].
      - rewrite Forall_forall in *. intros y Hy. apply Hf. clear -Hy Hcl. cbn [map].
        revert c2 cs Hcl. induction ks as [|z ks IHz]; intros c2 cs Hcl; [destruct Hy|].
        destruct cs as [|c3 cs]; [cbn in Hcl; lia|]. cbn [map interleave]. apply in_or_app. right.
        destruct Hy as [<-|Hy]; [left; reflexivity|right]. apply (IHz Hy c3 cs). cbn in *. lia. }
    destruct (position_spec k ks 0 b i Hks Ep) as [_ [Hi [Hlt Hrest]]]. rewrite Nat.sub_0_r in *.
    set (f := inorder d) in *.
    assert (Hat := interleave_at (map f cs) ks i). rewrite map_length in Hat. specialize (Hat Hcl Hi).
    set (A := zipA (firstn i (map f cs)) (firstn i ks)) in *.
    set (B := match skipn i ks with [] => [] | k0 :: ks' => k0 :: interleave (skipn (S i) (map f cs)) ks' end) in *.
    assert (HM : nth i (map f cs) [] = f (child_at cs i)).
    { unfold child_at. rewrite <- (inorder_empty d). fold f. apply map_nth. }
    rewrite HM in Hat. rewrite Hat in Hso.
    destruct (sorted_app_inv _ _ Hso) as [HsA [HsMB HAMB]]. destruct (sorted_app_inv _ _ HsMB) as [HsM [HsB HMB]].
    assert (HA : forall x, In x A -> x < k).
    { intros x Hx. destruct i as [|i']; [unfold A, zipA in Hx; cbn in Hx; destruct Hx|].
      pose proof (sorted_le_last A HsA x Hx) as Hle. unfold A in Hle.
      rewrite zipA_last in Hle; [|rewrite !firstn_length, map_length; lia|destruct ks; [cbn in Hi; lia|discriminate]].
      assert (Hl : In (last (firstn (S i') ks) 0) (firstn (S i') ks)).
      { destruct (firstn (S i') ks) eqn:E; [destruct ks; [cbn in Hi; lia|discriminate]|]. rewrite <- E.
        destruct (@exists_last _ (firstn (S i') ks)) as [l' [a' El]]; [rewrite E; discriminate|]. rewrite El, last_last. apply in_or_app. right. left. reflexivity. }
      specialize (Hlt _ Hl). lia. }
    assert (Hfst : forall x, In x (skipn i ks) -> k <= x).
    { destruct b; [destruct Hrest as [Hn Hgt]|]; intros x Hx.
      - assert (Hi' : (i < length ks)%nat) by (apply nth_error_Some; rewrite Hn; discriminate).
        rewrite (skipn_cons_nth 0 i ks Hi'), (nth_error_nth ks i 0 Hn) in Hx. destruct Hx as [<-|Hx]; [lia|]. specialize (Hgt x Hx). lia.
      - specialize (Hrest x Hx). lia. }
    destruct b.
    + (* the key is a separator of this node *)
      destruct Hrest as [Hn Hgt]. cbn [flat inorder]. fold f. split; [|split; cbn [fst snd shape]; [split; [exact Hlen|split; assumption]|exact I]].
      assert (Hi' : (i < length ks)%nat) by (apply nth_error_Some; rewrite Hn; discriminate).
      assert (EB : B = k :: interleave (skipn (S i) (map f cs)) (skipn (S i) ks)).
      { unfold B. rewrite (skipn_cons_nth 0 i ks Hi'), (nth_error_nth ks i 0 Hn). reflexivity. }
      set (B' := interleave (skipn (S i) (map f cs)) (skipn (S i) ks)) in EB.
      rewrite Hat, EB. rewrite EB in HsB, HMB.
      replace (A ++ f (child_at cs i) ++ k :: B') with ((A ++ f (child_at cs i)) ++ k :: B') by (rewrite <- app_assoc; reflexivity).
      symmetry. apply spec_ins_present.
      * intros x Hx. apply in_app_or in Hx as [Hx|Hx]; [exact (HA x Hx)|]. apply HMB; [exact Hx|left; reflexivity].
      * intros x Hx. inversion HsB as [|? ? _ Hf]; subst. rewrite Forall_forall in Hf. exact (Hf x Hx).
    + (* descend into child i *)
      assert (HB : forall x, In x B -> k < x).
      { intros x Hx. unfold B in Hx, HsB. destruct (skipn i ks) as [|k0 ks'] eqn:Es; [destruct Hx|].
        assert (Hk0 : k < k0) by (apply Hrest; left; reflexivity).
        destruct Hx as [<-|Hx]; [exact Hk0|]. inversion HsB as [|? ? _ Hf]; subst. rewrite Forall_forall in Hf. specialize (Hf x Hx). lia. }
      assert (Hci : (i < length cs)%nat) by lia.
      assert (Hshc : shape d (child_at cs i)) by (rewrite Forall_forall in Hcs; apply Hcs; apply nth_In; exact Hci).
      destruct (IH k (child_at cs i) Hshc HsM) as [Hflat Hshr].
      destruct (ins d k (child_at cs i)) as [c' up] eqn:Ei.
      assert (Hspec : spec_ins k (interleave (map f cs) ks) = A ++ spec_ins k (f (child_at cs i)) ++ B).
      { rewrite Hat. apply spec_ins_inner; assumption. }
      destruct Hshr as [Hsc' Hsup]. cbn [fst snd] in Hsc', Hsup.
      destruct up as [[s rt]|].
      * (* the child split *)
        cbn [flat] in Hflat.
        assert (Hl1 : (length (insert_at i s ks) <= S order)%nat) by (rewrite insert_at_length by lia; lia).
        assert (Hl2 : length (insert_at (S i) rt (set_at i c' cs)) = S (length (insert_at i s ks))).
        { rewrite !insert_at_length; rewrite ?set_at_length; lia. }
        assert (Hl3 : Forall (shape d) (insert_at (S i) rt (set_at i c' cs))).
        { unfold insert_at. pose proof (set_at_forall (shape d) i c' cs Hcs Hsc') as Hall. rewrite Forall_forall in Hall.
          apply Forall_app. split; [apply Forall_forall; intros y Hy; apply Hall; rewrite <- (firstn_skipn (S i) (set_at i c' cs)); apply in_or_app; left; exact Hy|].
          constructor; [exact Hsup|]. apply Forall_forall. intros y Hy. apply Hall. rewrite <- (firstn_skipn (S i) (set_at i c' cs)). apply in_or_app. right. exact Hy. }
        destruct (split_inner d _ _ Hl1 Hl2 Hl3) as [Hf Hs]. rewrite Hf. split; [|exact Hs].
        cbn [inorder]. fold f. rewrite Hspec, <- Hflat.
        (* the traversal with the new separator and child put in *)
        unfold insert_at. rewrite map_app. cbn [map]. rewrite <- firstn_map, <- skipn_map, map_set_at. fold f.
        rewrite (firstn_S_nth [] i (set_at i (f c') (map f cs))) by (rewrite set_at_length; rewrite map_length; lia).
        rewrite firstn_set_at by (rewrite map_length; lia). rewrite nth_set_at by (rewrite map_length; lia). rewrite skipn_set_at by (rewrite map_length; lia).
        rewrite <- app_assoc. cbn [app].
        rewrite interleave_app by (rewrite !firstn_length, map_length; lia). fold A.
        cbn [interleave]. unfold B. destruct (skipn i ks); rewrite <- ?app_assoc; cbn [app]; rewrite ?app_nil_r; reflexivity.
      * (* the child took the key *)
        cbn [flat] in Hflat. cbn [flat inorder]. fold f. split.
        -- rewrite Hspec, <- Hflat. rewrite map_set_at. fold f.
           rewrite (interleave_at (set_at i (f c') (map f cs)) ks i) by (rewrite ?set_at_length; rewrite ?map_length; lia).
           rewrite firstn_set_at by (rewrite map_length; lia). rewrite nth_set_at by (rewrite map_length; lia). rewrite skipn_set_at by (rewrite map_length; lia). reflexivity.
        -- split; cbn [fst snd shape]; [|exact I]. split; [exact Hlen|]. split; [rewrite set_at_length; lia|apply set_at_forall; assumption].
Qed.

(* ---- the tree as a whole: Operation::Set through BTree::write_sorted_changes ---- *)
Definition tree_ok (st : nat * btn) : Prop := shape (fst st) (snd st) /\ sorted (inorder (fst st) (snd st)).
Definition elements (st : nat * btn) : list N := inorder (fst st) (snd st).

Theorem bt_insert_spec st k : tree_ok st ->
  tree_ok (bt_insert st k) /\ elements (bt_insert st k) = spec_ins k (elements st).
Proof.
  destruct order_val as [Ho Hm]. destruct st as [d t]. intros [Hsh Hso]. cbn [fst snd] in *. unfold bt_insert, elements. cbn [fst snd].
  pose proof (ins_spec d k t Hsh Hso) as Hspec. destruct (ins d k t) as [t' [[s rt]|]]; destruct Hspec as [Hf [Hs1 Hs2]]; unfold flat in Hf; cbn [fst snd] in Hs1, Hs2.
  - assert (E : inorder (S d) (BT [s] [t'; rt]) = inorder d t' ++ s :: inorder d rt) by (cbn; rewrite ?app_nil_r; reflexivity).
    split; [split|]; cbn [fst snd].
    + cbn [shape]. split; [cbn; lia|]. split; [reflexivity|]. constructor; [exact Hs1|constructor; [exact Hs2|constructor]].
    + rewrite E, Hf. apply spec_ins_sorted. exact Hso.
    + rewrite E. exact Hf.
  - split; [split; [exact Hs1|cbn [fst snd]; rewrite Hf; apply spec_ins_sorted; exact Hso]|exact Hf].
Qed.

Lemma binit_ok : tree_ok binit /\ elements binit = [].
Proof. destruct order_val as [Ho Hm]. split; [split; cbn; [split; [lia|reflexivity]|constructor]|reflexivity]. Qed.

(* any number of keys set one after the other, in any order, repeated or not *)
Theorem inserts_keep_tree : forall ks st, tree_ok st ->
  tree_ok (fold_left bt_insert ks st) /\ elements (fold_left bt_insert ks st) = fold_left (fun l k => spec_ins k l) ks (elements st).
Proof.
  induction ks as [|k ks IH]; intros st H; cbn [fold_left]; [split; [exact H|reflexivity]|].
  destruct (bt_insert_spec st k H) as [H1 H2]. destruct (IH _ H1) as [H3 H4]. split; [exact H3|]. rewrite H4, H2. reflexivity.
Qed.

(* what spec_ins is on a sorted list: the key is in, everything else stays, nothing else comes *)
Lemma spec_ins_in k l x : sorted l -> (In x (spec_ins k l) <-> x = k \/ In x l).
Proof.
  intros _. unfold spec_ins, below, above. rewrite in_app_iff. cbn [In]. rewrite !filter_In, !N.ltb_lt. split.
  - intros [[H _]|[H|[H _]]]; auto.
  - intros [->|H]; [right; left; reflexivity|]. destruct (N.lt_trichotomy x k) as [Hl|[->|Hg]]; [left; split; assumption|right; left; reflexivity|right; right; split; assumption].
Qed.

(* ================= removal ================= *)
(* two neighbouring children j, j+1 and the key between them *)
Definition tailQ (cs : list (list N)) (ks : list N) (j : nat) : list N :=
  match skipn (S j) ks with [] => [] | k :: ks' => k :: interleave (skipn (S (S j)) cs) ks' end.

Lemma pair_decomp cs ks j : length cs = S (length ks) -> (j < length ks)%nat ->
  interleave cs ks = zipA (firstn j cs) (firstn j ks) ++ (nth j cs [] ++ nth j ks 0 :: nth (S j) cs []) ++ tailQ cs ks j.
Proof.
  intros Hl Hj. rewrite (interleave_at cs ks j Hl) by lia. f_equal. rewrite <- app_assoc. f_equal.
  rewrite (skipn_cons_nth 0 j ks Hj). cbn [app]. f_equal.
  rewrite (skipn_cons_nth [] (S j) cs) by lia. unfold tailQ. cbn [interleave].
  destruct (skipn (S j) ks); [rewrite app_nil_r|]; reflexivity.
Qed.

Lemma firstn_set_at_lt {A} i j (x : A) l : (j <= i)%nat -> (i <= length l)%nat -> firstn j (set_at i x l) = firstn j l.
Proof.
  intros H Hl. unfold set_at. rewrite firstn_app, firstn_length. replace (j - Nat.min i (length l))%nat with O by lia.
  rewrite firstn_O, app_nil_r, firstn_firstn. f_equal. lia.
Qed.
Lemma skipn_add {A} a : forall b (l : list A), skipn a (skipn b l) = skipn (b + a) l.
Proof. induction b as [|b IH]; intros l; [reflexivity|]. destruct l; [rewrite !skipn_nil; reflexivity|]. cbn. apply IH. Qed.
Lemma skipn_set_at_gt {A} i j (x : A) l : (i < j)%nat -> (i < length l)%nat -> skipn j (set_at i x l) = skipn j l.
Proof.
  intros H Hl. unfold set_at. rewrite skipn_app, firstn_length. rewrite (skipn_all2 (firstn i l)) by (rewrite firstn_length; lia).
  replace (j - Nat.min i (length l))%nat with (S (j - S i)) by lia. rewrite skipn_cons, skipn_add. cbn [app]. f_equal. lia.
Qed.
Lemma nth_firstn {A} (d : A) : forall i j (l : list A), (j < i)%nat -> nth j (firstn i l) d = nth j l d.
Proof. induction i as [|i IH]; intros [|j] [|x l] H; cbn; try lia; try reflexivity. apply IH. lia. Qed.
Lemma nth_skipn {A} (d : A) : forall m n (l : list A), nth n (skipn m l) d = nth (m + n) l d.
Proof. induction m as [|m IH]; intros n [|x l]; cbn; try reflexivity; [destruct n; reflexivity|apply IH]. Qed.
Lemma nth_set_at_neq {A} i j (x : A) l d : i <> j -> (i < length l)%nat -> nth j (set_at i x l) d = nth j l d.
Proof.
  intros Hne Hl. unfold set_at. destruct (Nat.lt_ge_cases j i) as [Hlt|Hge].
  - rewrite app_nth1 by (rewrite firstn_length; lia). apply nth_firstn. exact Hlt.
  - rewrite app_nth2 by (rewrite firstn_length; lia). rewrite firstn_length.
    replace (j - Nat.min i (length l))%nat with (S (j - S i)) by lia. cbn [nth]. rewrite nth_skipn. f_equal. lia.
Qed.

Lemma remove_at_length {A} i (l : list A) : (i < length l)%nat -> length (remove_at i l) = (length l - 1)%nat.
Proof. intros H. unfold remove_at. rewrite app_length, firstn_length, skipn_length. lia. Qed.
Lemma firstn_remove_at {A} i j (l : list A) : (j <= i)%nat -> (i <= length l)%nat -> firstn j (remove_at i l) = firstn j l.
Proof.
  intros H Hl. unfold remove_at. rewrite firstn_app, firstn_length. replace (j - Nat.min i (length l))%nat with O by lia.
  rewrite firstn_O, app_nil_r, firstn_firstn. f_equal. lia.
Qed.
Lemma skipn_remove_at {A} i (l : list A) : (i <= length l)%nat -> skipn i (remove_at i l) = skipn (S i) l.
Proof.
  intros Hl. unfold remove_at. rewrite skipn_app, firstn_length. rewrite (skipn_all2 (firstn i l)) by (rewrite firstn_length; lia).
  replace (i - Nat.min i (length l))%nat with O by lia. reflexivity.
Qed.

Lemma pair_replace cs ks j c1 k1 c2 : length cs = S (length ks) -> (j < length ks)%nat ->
  interleave (set_at (S j) c2 (set_at j c1 cs)) (set_at j k1 ks) =
  zipA (firstn j cs) (firstn j ks) ++ (c1 ++ k1 :: c2) ++ tailQ cs ks j.
Proof.
  intros Hl Hj.
  assert (L1 : length (set_at j c1 cs) = length cs) by (apply set_at_length; lia).
  assert (L2 : length (set_at (S j) c2 (set_at j c1 cs)) = length cs) by (rewrite set_at_length; lia).
  assert (L3 : length (set_at j k1 ks) = length ks) by (apply set_at_length; lia).
  rewrite (pair_decomp _ _ j) by lia.
  rewrite (firstn_set_at_lt (S j) j) by lia. rewrite (firstn_set_at j) by lia. rewrite (firstn_set_at j k1 ks) by lia.
  rewrite (nth_set_at_neq (S j) j) by lia. rewrite (nth_set_at j c1 cs) by lia. rewrite (nth_set_at j k1 ks) by lia.
  rewrite (nth_set_at (S j)) by lia.
  unfold tailQ. rewrite (skipn_set_at j k1 ks) by lia. rewrite (skipn_set_at (S j)) by lia.
  rewrite (skipn_set_at_gt j (S (S j))) by lia. reflexivity.
Qed.

Lemma pair_merge cs ks j m : length cs = S (length ks) -> (j < length ks)%nat ->
  interleave (set_at j m (remove_at (S j) cs)) (remove_at j ks) = zipA (firstn j cs) (firstn j ks) ++ m ++ tailQ cs ks j.
Proof.
  intros Hl Hj.
  assert (L1 : length (remove_at (S j) cs) = length ks) by (rewrite remove_at_length; lia).
  assert (L2 : length (set_at j m (remove_at (S j) cs)) = length ks) by (rewrite set_at_length; lia).
  assert (L3 : length (remove_at j ks) = (length ks - 1)%nat) by (apply remove_at_length; lia).
  rewrite (interleave_at _ _ j) by lia.
  rewrite (firstn_set_at j) by lia. rewrite (firstn_remove_at (S j) j) by lia. rewrite (firstn_remove_at j j) by lia.
  rewrite (nth_set_at j) by lia. rewrite (skipn_remove_at j ks) by lia.
  rewrite (skipn_set_at j) by lia. rewrite (skipn_remove_at (S j) cs) by lia. reflexivity.
Qed.

(* ---- taking a node apart at its ends, putting nodes together ---- *)
Definition nkeys (t : btn) : nat := length (keys_of t).
Definition lastkid_flat (d : nat) (t : btn) : list N :=
  match kids_of t with [] => [] | _ => inorder (pred d) (last (kids_of t) empty_node) end.
Definition firstkid_flat (d : nat) (t : btn) : list N :=
  match kids_of t with [] => [] | c :: _ => inorder (pred d) c end.

Lemma removelast_firstn {A} (l : list A) : removelast l = firstn (length l - 1) l.
Proof.
  induction l as [|a l IH]; [reflexivity|]. destruct l as [|b l]; [reflexivity|].
  change (removelast (a :: b :: l)) with (a :: removelast (b :: l)). rewrite IH. cbn [length]. replace (S (S (length l)) - 1)%nat with (S (S (length l) - 1)) by lia. reflexivity.
Qed.
Lemma last_nth {A} (l : list A) d : last l d = nth (length l - 1) l d.
Proof.
  induction l as [|a l IH]; [reflexivity|]. destruct l as [|b l]; [reflexivity|].
  change (last (a :: b :: l) d) with (last (b :: l) d). rewrite IH. cbn [length]. replace (S (S (length l)) - 1)%nat with (S (S (length l) - 1)) by lia. reflexivity.
Qed.

Lemma interleave_full cs ks : length cs = S (length ks) ->
  interleave cs ks = zipA (firstn (length ks) cs) ks ++ nth (length ks) cs [].
Proof.
  intros Hl. rewrite (interleave_at cs ks (length ks) Hl) by lia. rewrite firstn_all, skipn_all. rewrite app_nil_r. reflexivity.
Qed.

Lemma node_last d t : shape d t -> (1 <= nkeys t)%nat ->
  inorder d t = inorder d (BT (removelast (keys_of t)) (removelast (kids_of t))) ++ last (keys_of t) 0 :: lastkid_flat d t.
Proof.
  destruct t as [ks cs]. unfold nkeys, lastkid_flat. cbn [keys_of kids_of]. intros Hs Hn. destruct d as [|d]; cbn [shape] in Hs; destruct Hs as [_ Hs].
  - subst cs. cbn [inorder removelast]. rewrite <- app_removelast_last by (destruct ks; [cbn in Hn; lia|discriminate]). reflexivity.
  - destruct Hs as [Hl _]. cbn [inorder pred]. set (f := inorder d). set (n := (length ks - 1)%nat).
    assert (Hcs : cs <> []) by (destruct cs; [discriminate|discriminate]).
    destruct cs as [|c0 cs']; [contradiction|]. set (cs := c0 :: cs') in *.
    rewrite (interleave_at (map f cs) ks n) by (rewrite ?map_length; lia).
    rewrite (skipn_cons_nth 0 n ks) by lia. replace (S n) with (length ks) by lia. rewrite skipn_all.
    rewrite (skipn_cons_nth [] (length ks) (map f cs)) by (rewrite map_length; lia).
    rewrite skipn_all2 by (rewrite map_length; lia). cbn [interleave].
    rewrite !removelast_firstn. rewrite Hl. replace (S (length ks) - 1)%nat with (length ks) by lia. fold n.
    rewrite (interleave_full (map f (firstn (length ks) cs)) (firstn n ks)) by (rewrite map_length, !firstn_length; lia).
    rewrite firstn_length. replace (Nat.min n (length ks)) with n by lia.
    rewrite <- firstn_map. rewrite firstn_firstn. replace (Nat.min n (length ks)) with n by lia.
    rewrite (nth_firstn [] (length ks) n) by lia.
    rewrite <- app_assoc. f_equal. f_equal. rewrite !last_nth. replace (length ks - 1)%nat with n by reflexivity.
    f_equal. rewrite Hl. replace (S (length ks) - 1)%nat with (length ks) by lia.
    rewrite <- (inorder_empty d). fold f. rewrite map_nth. reflexivity.
Qed.

Lemma node_first d t : shape d t -> (1 <= nkeys t)%nat ->
  inorder d t = firstkid_flat d t ++ hd 0 (keys_of t) :: inorder d (BT (tl (keys_of t)) (tl (kids_of t))).
Proof.
  destruct t as [ks cs]. unfold nkeys, firstkid_flat. cbn [keys_of kids_of]. intros Hs Hn.
  destruct ks as [|k0 ks]; [cbn in Hn; lia|]. destruct d as [|d]; cbn [shape] in Hs; destruct Hs as [_ Hs].
  - subst cs. reflexivity.
  - destruct Hs as [Hl _]. destruct cs as [|c0 cs]; [discriminate|]. cbn [inorder map interleave pred hd tl]. reflexivity.
Qed.

(* a key (and, between inner nodes, a child) put in front of a node / behind a node; two nodes and a key joined *)
Lemma cons_node d k mc r : shape d r -> (match d with O => mc = None | S _ => mc <> None end) ->
  inorder d (BT (k :: keys_of r) (match mc with None => kids_of r | Some c => c :: kids_of r end)) =
  (match mc with None => [] | Some c => inorder (pred d) c end) ++ k :: inorder d r.
Proof.
  destruct r as [ks cs]. cbn [keys_of kids_of]. intros Hs Hm. destruct d as [|d]; cbn [shape] in Hs; destruct Hs as [_ Hs].
  - subst mc cs. reflexivity.
  - destruct mc as [c|]; [|contradiction]. cbn [inorder map interleave pred]. reflexivity.
Qed.
Lemma snoc_node d l k mc : shape d l -> (match d with O => mc = None | S _ => mc <> None end) ->
  inorder d (BT (keys_of l ++ [k]) (match mc with None => kids_of l | Some c => kids_of l ++ [c] end)) =
  inorder d l ++ k :: (match mc with None => [] | Some c => inorder (pred d) c end).
Proof.
  destruct l as [ks cs]. cbn [keys_of kids_of]. intros Hs Hm. destruct d as [|d]; cbn [shape] in Hs; destruct Hs as [_ Hs].
  - subst mc cs. reflexivity.
  - destruct mc as [c|]; [|contradiction]. destruct Hs as [Hl _]. cbn [inorder pred]. set (f := inorder d).
    rewrite map_app. cbn [map].
    rewrite (interleave_full (map f cs) ks) by (rewrite map_length; lia).
    rewrite <- (firstn_skipn (length ks) (map f cs)) at 1.
    rewrite <- app_assoc. rewrite interleave_app by (rewrite firstn_length, map_length; lia).
    rewrite (skipn_cons_nth [] (length ks) (map f cs)) by (rewrite map_length; lia).
    rewrite skipn_all2 by (rewrite map_length; lia). cbn [app interleave]. rewrite <- app_assoc. reflexivity.
Qed.
Lemma merge_node d l k r : shape d l -> shape d r ->
  inorder d (BT (keys_of l ++ k :: keys_of r) (kids_of l ++ kids_of r)) = inorder d l ++ k :: inorder d r.
Proof.
  destruct l as [lk lc], r as [rk rc]. cbn [keys_of kids_of]. intros Hl Hr. destruct d as [|d]; cbn [shape] in Hl, Hr; destruct Hl as [_ Hl], Hr as [_ Hr].
  - subst lc rc. reflexivity.
  - destruct Hl as [Hll _], Hr as [Hrl _]. cbn [inorder]. set (f := inorder d). rewrite map_app.
    rewrite (interleave_full (map f lc) lk) by (rewrite map_length; lia).
    rewrite <- (firstn_skipn (length lk) (map f lc)) at 1. rewrite <- app_assoc.
    rewrite interleave_app by (rewrite firstn_length, map_length; lia).
    rewrite (skipn_cons_nth [] (length lk) (map f lc)) by (rewrite map_length; lia).
    rewrite skipn_all2 by (rewrite map_length; lia). cbn [app interleave]. rewrite <- app_assoc. reflexivity.
Qed.

(* ---- occupancy: every node below the root has at least ORDER/2 keys ---- *)
Fixpoint minocc (d : nat) (t : btn) : Prop :=
  match d with
  | O => True
  | S d' => Forall (fun c => (middle <= nkeys c)%nat /\ minocc d' c) (kids_of t)
  end.
Definition kid_ok (d : nat) (c : btn) : Prop := shape d c /\ (middle <= nkeys c)%nat /\ minocc d c.

Lemma shape_kids d t : shape d t -> match d with O => kids_of t = [] | S d' => length (kids_of t) = S (nkeys t) /\ Forall (shape d') (kids_of t) end.
Proof. destruct t as [ks cs]. destruct d; cbn [shape]; intros [_ H]; exact H. Qed.
Lemma shape_len d t : shape d t -> (nkeys t <= order)%nat.
Proof. destruct t as [ks cs]. destruct d; cbn [shape]; intros [H _]; exact H. Qed.

Lemma forall_removelast {A} (P : A -> Prop) l : Forall P l -> Forall P (removelast l).
Proof. intros H. rewrite removelast_firstn. rewrite Forall_forall in *. intros x Hx. apply H. rewrite <- (firstn_skipn (length l - 1) l). apply in_or_app. left. exact Hx. Qed.
Lemma forall_tl {A} (P : A -> Prop) l : Forall P l -> Forall P (tl l).
Proof. intros H. destruct l; [constructor|]. inversion H; assumption. Qed.
Lemma forall_last {A} (P : A -> Prop) l d : Forall P l -> l <> [] -> P (last l d).
Proof. intros H Hne. rewrite Forall_forall in H. apply H. destruct (exists_last Hne) as [l' [a ->]]. rewrite last_last. apply in_or_app. right. left. reflexivity. Qed.
Lemma removelast_length {A} (l : list A) : length (removelast l) = (length l - 1)%nat.
Proof. rewrite removelast_firstn, firstn_length. lia. Qed.

(* the rich left sibling gives its last key (and child) through the parent *)
Lemma borrow_left_spec d l k r : kid_ok d l -> (middle < nkeys l)%nat -> shape d r -> (nkeys r = middle - 1)%nat -> minocc d r ->
  let l' := BT (removelast (keys_of l)) (removelast (kids_of l)) in
  let r' := BT (k :: keys_of r) (match kids_of l with [] => kids_of r | _ => last (kids_of l) empty_node :: kids_of r end) in
  inorder d l ++ k :: inorder d r = inorder d l' ++ last (keys_of l) 0 :: inorder d r' /\ kid_ok d l' /\ kid_ok d r'.
Proof.
  destruct order_val as [Ho Hm]. intros [Hsl [Hnl Hml]] Hrich Hsr Hnr Hmr l' r'.
  pose proof (shape_kids d l Hsl) as Hkl. pose proof (shape_kids d r Hsr) as Hkr. pose proof (shape_len d l Hsl) as Hll.
  set (mc := match kids_of l with [] => None | _ => Some (last (kids_of l) empty_node) end).
  assert (Hmc : match d with O => mc = None | S _ => mc <> None end).
  { unfold mc. destruct d; [rewrite Hkl; reflexivity|]. destruct Hkl as [Hlen _]. destruct (kids_of l); [discriminate|discriminate]. }
  assert (Er' : r' = BT (k :: keys_of r) (match mc with None => kids_of r | Some c => c :: kids_of r end)).
  { unfold r', mc. destruct (kids_of l); reflexivity. }
  assert (El : lastkid_flat d l = match mc with None => [] | Some c => inorder (pred d) c end).
  { unfold lastkid_flat, mc. destruct (kids_of l); reflexivity. }
  assert (Hc : forall c, mc = Some c -> c = last (kids_of l) empty_node /\ kids_of l <> []).
  { intros c Emc. unfold mc in Emc. destruct (kids_of l) as [|x xs]; [discriminate|]. injection Emc as <-. split; [reflexivity|discriminate]. }
  split; [|split].
  - rewrite (node_last d l Hsl) by lia. fold l'. rewrite Er', (cons_node d k mc r Hsr Hmc), El. rewrite <- app_assoc. reflexivity.
  - unfold kid_ok, l', nkeys. cbn [keys_of kids_of]. split; [|split].
    + destruct d; cbn [shape]; (split; [rewrite removelast_length; unfold nkeys in *; lia|]).
      * rewrite Hkl. reflexivity.
      * destruct Hkl as [Hlen Hf]. split; [rewrite !removelast_length; unfold nkeys in *; lia|apply forall_removelast; exact Hf].
    + rewrite removelast_length. unfold nkeys in *. lia.
    + destruct d; cbn [minocc kids_of]; [exact I|]. apply forall_removelast. exact Hml.
  - unfold kid_ok. rewrite Er'. unfold nkeys. cbn [keys_of kids_of]. split; [|split].
    + destruct d; cbn [shape]; (split; [cbn [length]; unfold nkeys in *; lia|]).
      * rewrite Hmc. exact Hkr.
      * destruct mc as [c|] eqn:Emc; [|contradiction]. destruct Hkr as [Hlen Hf]. destruct Hkl as [Hlenl Hfl]. split; [cbn [length]; unfold nkeys in *; lia|].
        constructor; [|exact Hf]. destruct (Hc c eq_refl) as [-> Hne]. apply forall_last; [exact Hfl|exact Hne].
    + cbn [length]. unfold nkeys in *. lia.
    + destruct d; cbn [minocc kids_of]; [exact I|]. destruct mc as [c|] eqn:Emc; [|contradiction]. cbn [minocc] in Hml, Hmr.
      constructor; [|exact Hmr]. destruct (Hc c eq_refl) as [-> Hne]. apply (forall_last _ _ _ Hml). exact Hne.
Qed.

(* the rich right sibling gives its first key (and child) *)
Lemma borrow_right_spec d l k r : shape d l -> (nkeys l = middle - 1)%nat -> minocc d l -> kid_ok d r -> (middle < nkeys r)%nat ->
  let r' := BT (tl (keys_of r)) (tl (kids_of r)) in
  let l' := BT (keys_of l ++ [k]) (match kids_of r with [] => kids_of l | c :: _ => kids_of l ++ [c] end) in
  inorder d l ++ k :: inorder d r = inorder d l' ++ hd 0 (keys_of r) :: inorder d r' /\ kid_ok d l' /\ kid_ok d r'.
Proof.
  destruct order_val as [Ho Hm]. intros Hsl Hnl Hml [Hsr [Hnr Hmr]] Hrich r' l'.
  pose proof (shape_kids d l Hsl) as Hkl. pose proof (shape_kids d r Hsr) as Hkr. pose proof (shape_len d r Hsr) as Hlr.
  set (mc := match kids_of r with [] => None | c :: _ => Some c end).
  assert (Hmc : match d with O => mc = None | S _ => mc <> None end).
  { unfold mc. destruct d; [rewrite Hkr; reflexivity|]. destruct Hkr as [Hlen _]. destruct (kids_of r); [discriminate|discriminate]. }
  assert (El' : l' = BT (keys_of l ++ [k]) (match mc with None => kids_of l | Some c => kids_of l ++ [c] end)).
  { unfold l', mc. destruct (kids_of r); reflexivity. }
  assert (Er : firstkid_flat d r = match mc with None => [] | Some c => inorder (pred d) c end).
  { unfold firstkid_flat, mc. destruct (kids_of r); reflexivity. }
  assert (Hc : forall c, mc = Some c -> exists rest, kids_of r = c :: rest).
  { intros c Emc. unfold mc in Emc. destruct (kids_of r) as [|x xs]; [discriminate|]. injection Emc as <-. eexists; reflexivity. }
  split; [|split].
  - rewrite (node_first d r Hsr) by lia. fold r'. rewrite El', (snoc_node d l k mc Hsl Hmc), Er. rewrite <- app_assoc. reflexivity.
  - unfold kid_ok. rewrite El'. unfold nkeys. cbn [keys_of kids_of]. split; [|split].
    + destruct d; cbn [shape]; (split; [rewrite app_length; cbn [length]; unfold nkeys in *; lia|]).
      * rewrite Hmc. exact Hkl.
      * destruct mc as [c|] eqn:Emc; [|contradiction]. destruct Hkl as [Hlen Hf]. destruct Hkr as [Hlenr Hfr].
        split; [rewrite !app_length; cbn [length]; unfold nkeys in *; lia|]. apply Forall_app. split; [exact Hf|].
        constructor; [|constructor]. destruct (Hc c eq_refl) as [rest Er0]. rewrite Er0 in Hfr. inversion Hfr; assumption.
    + rewrite app_length. cbn [length]. unfold nkeys in *. lia.
    + destruct d; cbn [minocc kids_of]; [exact I|]. destruct mc as [c|] eqn:Emc; [|contradiction]. cbn [minocc] in Hml, Hmr.
      apply Forall_app. split; [exact Hml|]. constructor; [|constructor]. destruct (Hc c eq_refl) as [rest Er0]. rewrite Er0 in Hmr. inversion Hmr; assumption.
  - unfold kid_ok, r', nkeys. cbn [keys_of kids_of]. assert (Htl : length (tl (keys_of r)) = (nkeys r - 1)%nat) by (unfold nkeys; destruct (keys_of r); cbn; lia).
    split; [|split].
    + destruct d; cbn [shape]; (split; [rewrite Htl; lia|]).
      * rewrite Hkr. reflexivity.
      * destruct Hkr as [Hlen Hf]. split; [|apply forall_tl; exact Hf]. rewrite Htl. destruct (kids_of r); cbn in *; lia.
    + rewrite Htl. lia.
    + destruct d; cbn [minocc kids_of]; [exact I|]. apply forall_tl. exact Hmr.
Qed.

(* two poor neighbours and the key between them become one node *)
Lemma merge_spec d l k r : shape d l -> shape d r -> minocc d l -> minocc d r ->
  (nkeys l + nkeys r = 2 * middle - 1)%nat -> (middle - 1 <= nkeys l)%nat -> (middle - 1 <= nkeys r)%nat ->
  let m := BT (keys_of l ++ k :: keys_of r) (kids_of l ++ kids_of r) in
  inorder d m = inorder d l ++ k :: inorder d r /\ kid_ok d m.
Proof.
  destruct order_val as [Ho Hm]. intros Hsl Hsr Hml Hmr Hsum Hl1 Hr1 m.
  pose proof (shape_kids d l Hsl) as Hkl. pose proof (shape_kids d r Hsr) as Hkr.
  split; [apply merge_node; assumption|]. unfold kid_ok, m, nkeys. cbn [keys_of kids_of]. split; [|split].
  - destruct d; cbn [shape]; (split; [rewrite app_length; cbn [length]; unfold nkeys in *; lia|]).
    + rewrite Hkl, Hkr. reflexivity.
    + destruct Hkl as [H1 F1], Hkr as [H2 F2]. split; [rewrite !app_length; cbn [length]; unfold nkeys in *; lia|apply Forall_app; split; assumption].
  - rewrite app_length. cbn [length]. unfold nkeys in *. lia.
  - destruct d; cbn [minocc kids_of]; [exact I|]. cbn [minocc] in Hml, Hmr. apply Forall_app. split; assumption.
Qed.

Lemma nth_remove_at {A} k i (l : list A) d : (k <= length l)%nat ->
  nth i (remove_at k l) d = if Nat.ltb i k then nth i l d else nth (S i) l d.
Proof.
  intros Hk. unfold remove_at. destruct (Nat.ltb_spec i k) as [Hlt|Hge].
  - rewrite app_nth1 by (rewrite firstn_length; lia). apply nth_firstn. exact Hlt.
  - rewrite app_nth2 by (rewrite firstn_length; lia). rewrite firstn_length, nth_skipn. f_equal. lia.
Qed.

Lemma child_map d cs i : nth i (map (inorder d) cs) [] = inorder d (child_at cs i).
Proof. unfold child_at. rewrite <- (inorder_empty d). apply map_nth. Qed.

(* Node::rebalance *)
Lemma rebalance_spec d ks cs a :
  length cs = S (length ks) -> (1 <= length ks)%nat -> (a <= length ks)%nat ->
  (forall j, (j < length cs)%nat -> j <> a -> kid_ok d (child_at cs j)) ->
  shape d (child_at cs a) -> (nkeys (child_at cs a) = middle - 1)%nat -> minocc d (child_at cs a) ->
  let t' := rebalance ks cs a in
  inorder (S d) t' = interleave (map (inorder d) cs) ks /\
  length (kids_of t') = S (nkeys t') /\ Forall (kid_ok d) (kids_of t') /\
  (nkeys t' = length ks \/ S (nkeys t') = length ks).
Proof.
  destruct order_val as [Ho Hm]. intros Hl Hk1 Ha Hall Hsa Hna Hma t'. unfold t', rebalance.
  assert (Hmapl : length (map (inorder d) cs) = S (length ks)) by (rewrite map_length; exact Hl).
  destruct ((0 <? a)%nat && rich (child_at cs (a - 1))) eqn:C1.
  - (* from the left *)
    apply andb_true_iff in C1 as [Ha0 Hrich]. apply Nat.ltb_lt in Ha0. unfold rich in Hrich. apply Nat.ltb_lt in Hrich.
    set (j := (a - 1)%nat) in *. assert (Hja : a = S j) by lia.
    assert (Hkl : kid_ok d (child_at cs j)) by (apply Hall; lia).
    destruct (borrow_left_spec d (child_at cs j) (nth j ks 0) (child_at cs a) Hkl Hrich Hsa Hna Hma) as [Hfl [Hl' Hr']].
    set (l' := BT (removelast (keys_of (child_at cs j))) (removelast (kids_of (child_at cs j)))) in *.
    set (r' := BT (nth j ks 0 :: keys_of (child_at cs a)) _) in *.
    cbn [inorder keys_of kids_of nkeys]. split; [|split; [|split]].
    + rewrite Hja. rewrite !map_set_at.
      rewrite (pair_replace (map (inorder d) cs) ks j (inorder d l') (last (keys_of (child_at cs j)) 0) (inorder d r')) by lia.
      rewrite (pair_decomp (map (inorder d) cs) ks j) by lia. rewrite !child_map. rewrite <- Hja. f_equal. f_equal. symmetry. exact Hfl.
    + unfold nkeys. cbn [keys_of]. rewrite !set_at_length; rewrite ?set_at_length; lia.
    + apply Forall_nth. intros i dflt Hi. rewrite !set_at_length in Hi by (rewrite ?set_at_length; lia).
      destruct (Nat.eq_dec i a) as [->|Hia]; [rewrite nth_set_at by (rewrite set_at_length; lia); exact Hr'|].
      rewrite nth_set_at_neq by (rewrite ?set_at_length; lia).
      destruct (Nat.eq_dec i j) as [->|Hij]; [rewrite nth_set_at by lia; exact Hl'|].
      rewrite nth_set_at_neq by lia. rewrite (nth_indep cs dflt empty_node Hi). apply Hall; assumption.
    + left. unfold nkeys. cbn [keys_of]. apply set_at_length. lia.
  - destruct ((S a <? S (length ks))%nat && rich (child_at cs (S a))) eqn:C2.
    + (* from the right *)
      apply andb_true_iff in C2 as [Ha1 Hrich]. apply Nat.ltb_lt in Ha1. unfold rich in Hrich. apply Nat.ltb_lt in Hrich.
      assert (Hkr : kid_ok d (child_at cs (S a))) by (apply Hall; lia).
      destruct (borrow_right_spec d (child_at cs a) (nth a ks 0) (child_at cs (S a)) Hsa Hna Hma Hkr Hrich) as [Hfl [Hl' Hr']].
      set (r' := BT (tl (keys_of (child_at cs (S a)))) (tl (kids_of (child_at cs (S a))))) in *.
      set (l' := BT (keys_of (child_at cs a) ++ [nth a ks 0]) _) in *.
      cbn [inorder keys_of kids_of nkeys]. split; [|split; [|split]].
      * rewrite !map_set_at.
        rewrite (pair_replace (map (inorder d) cs) ks a (inorder d l') (hd 0 (keys_of (child_at cs (S a)))) (inorder d r')) by lia.
        rewrite (pair_decomp (map (inorder d) cs) ks a) by lia. rewrite !child_map. f_equal. f_equal. symmetry. exact Hfl.
      * unfold nkeys. cbn [keys_of]. rewrite !set_at_length; rewrite ?set_at_length; lia.
      * apply Forall_nth. intros i dflt Hi. rewrite !set_at_length in Hi by (rewrite ?set_at_length; lia).
        destruct (Nat.eq_dec i (S a)) as [->|Hia]; [rewrite nth_set_at by (rewrite set_at_length; lia); exact Hr'|].
        rewrite nth_set_at_neq by (rewrite ?set_at_length; lia).
        destruct (Nat.eq_dec i a) as [->|Hij]; [rewrite nth_set_at by lia; exact Hl'|].
        rewrite nth_set_at_neq by lia. rewrite (nth_indep cs dflt empty_node Hi). apply Hall; assumption.
      * left. unfold nkeys. cbn [keys_of]. apply set_at_length. lia.
    + (* merge *)
      set (j := if (S a =? S (length ks))%nat then (a - 1)%nat else a).
      assert (Hj : (j < length ks)%nat /\ (a = j \/ a = S j)).
      { unfold j. destruct (Nat.eqb_spec (S a) (S (length ks))); lia. }
      destruct Hj as [Hjl Hja].
      assert (Hpair : shape d (child_at cs j) /\ shape d (child_at cs (S j)) /\ minocc d (child_at cs j) /\ minocc d (child_at cs (S j)) /\
                      (nkeys (child_at cs j) + nkeys (child_at cs (S j)) = 2 * middle - 1)%nat /\
                      (middle - 1 <= nkeys (child_at cs j))%nat /\ (middle - 1 <= nkeys (child_at cs (S j)))%nat).
      { destruct Hja as [Hja|Hja].
        - (* the poor child is the left one: its right neighbour is not rich *)
          subst j. rewrite <- Hja in *.
          assert (Hnl : (S a =? S (length ks))%nat = false) by (apply Nat.eqb_neq; lia).
          assert (Hkr : kid_ok d (child_at cs (S a))) by (apply Hall; lia). destruct Hkr as [Hsr [Hnr Hmr]].
          assert (Hnr2 : (nkeys (child_at cs (S a)) <= middle)%nat).
          { apply andb_false_iff in C2 as [C2|C2]; [apply Nat.ltb_ge in C2; lia|]. unfold rich in C2. apply Nat.ltb_ge in C2. exact C2. }
          repeat split; try assumption; lia.
        - (* the poor child is the right one: a is the last child, its left neighbour is not rich *)
          assert (Hj' : j = (a - 1)%nat) by lia.
          assert (Hkl : kid_ok d (child_at cs j)) by (apply Hall; lia). destruct Hkl as [Hsl [Hnl Hml]].
          assert (Hnl2 : (nkeys (child_at cs j) <= middle)%nat).
          { apply andb_false_iff in C1 as [C1|C1]; [apply Nat.ltb_ge in C1; lia|]. unfold rich in C1. apply Nat.ltb_ge in C1. rewrite <- Hj' in C1. exact C1. }
          rewrite <- Hja. repeat split; try assumption; lia. }
      destruct Hpair as [Hsl [Hsr [Hml [Hmr [Hsum [Hl1 Hr1]]]]]].
      destruct (merge_spec d (child_at cs j) (nth j ks 0) (child_at cs (S j)) Hsl Hsr Hml Hmr Hsum Hl1 Hr1) as [Hfm Hkm].
      set (m := BT (keys_of (child_at cs j) ++ nth j ks 0 :: keys_of (child_at cs (S j))) (kids_of (child_at cs j) ++ kids_of (child_at cs (S j)))) in *.
      cbn [inorder keys_of kids_of nkeys]. split; [|split; [|split]].
      * rewrite map_set_at. unfold remove_at at 1. rewrite map_app, <- firstn_map, <- skipn_map. fold (remove_at (S j) (map (inorder d) cs)).
        rewrite (pair_merge (map (inorder d) cs) ks j (inorder d m)) by lia.
        rewrite (pair_decomp (map (inorder d) cs) ks j) by lia. rewrite !child_map. f_equal. f_equal. exact Hfm.
      * unfold nkeys. cbn [keys_of]. rewrite set_at_length by (rewrite remove_at_length; lia). rewrite !remove_at_length by lia. lia.
      * apply Forall_nth. intros i dflt Hi. rewrite set_at_length in Hi by (rewrite remove_at_length; lia). rewrite remove_at_length in Hi by lia.
        destruct (Nat.eq_dec i j) as [->|Hij]; [rewrite nth_set_at by (rewrite remove_at_length; lia); exact Hkm|].
        rewrite nth_set_at_neq by (rewrite ?remove_at_length; lia). rewrite nth_remove_at by lia.
        destruct (Nat.ltb_spec i (S j)).
        -- rewrite (nth_indep cs dflt empty_node) by lia. apply Hall; lia.
        -- rewrite (nth_indep cs dflt empty_node) by lia. apply Hall; lia.
      * right. unfold nkeys. cbn [keys_of]. rewrite remove_at_length by lia. lia.
Qed.

(* ---- the children of a well-shaped node with the occupancy invariant ---- *)
Lemma kids_ok d ks cs : shape (S d) (BT ks cs) -> minocc (S d) (BT ks cs) ->
  length cs = S (length ks) /\ forall j, (j < length cs)%nat -> kid_ok d (child_at cs j).
Proof.
  cbn [shape minocc kids_of]. intros [_ [Hl Hs]] Hm. split; [exact Hl|]. intros j Hj. unfold kid_ok, child_at.
  rewrite Forall_forall in Hs, Hm. pose proof (nth_In cs empty_node Hj) as Hin. destruct (Hm _ Hin) as [H1 H2]. split; [apply Hs; exact Hin|split; assumption].
Qed.
Lemma node_from_kids d ks cs : (length ks <= order)%nat -> length cs = S (length ks) -> Forall (kid_ok d) cs ->
  shape (S d) (BT ks cs) /\ minocc (S d) (BT ks cs).
Proof.
  intros Hk Hl Hf. cbn [shape minocc kids_of]. rewrite Forall_forall in Hf. split; [split; [exact Hk|split; [exact Hl|]]|]; apply Forall_forall; intros c Hc; destruct (Hf c Hc) as [H1 [H2 H3]]; [exact H1|split; assumption].
Qed.
Lemma set_at_kids d cs i c' : (i < length cs)%nat -> (forall j, (j < length cs)%nat -> kid_ok d (child_at cs j)) ->
  forall j, (j < length (set_at i c' cs))%nat -> j <> i -> kid_ok d (child_at (set_at i c' cs) j).
Proof.
  intros Hi Hall j Hj Hne. rewrite set_at_length in Hj by exact Hi. unfold child_at. rewrite nth_set_at_neq by (try lia; exact Hi). apply Hall. exact Hj.
Qed.

Definition need_claim (need : bool) (n n' : nat) : Prop := need = Nat.ltb n' middle \/ (need = false /\ n' = n).

(* Node::remove_last *)
Lemma remove_last_spec : forall d t, shape d t -> minocc d t -> (1 <= nkeys t)%nat ->
  exists t' need s, remove_last d t = (t', need, Some s) /\
    inorder d t = inorder d t' ++ [s] /\ shape d t' /\ minocc d t' /\
    (nkeys t' = nkeys t \/ S (nkeys t') = nkeys t) /\ need_claim need (nkeys t) (nkeys t').
Proof.
  destruct order_val as [Ho Hm].
  induction d as [|d IH]; intros [ks cs] Hs Hmin Hn; unfold nkeys in Hn; cbn [keys_of] in Hn.
  - cbn [shape] in Hs. destruct Hs as [Hlen ->]. cbn [remove_last]. destruct ks as [|k0 ks0] eqn:Ek; [cbn in Hn; lia|]. rewrite <- Ek in *.
    assert (Hne : ks <> []) by (rewrite Ek; discriminate).
    exists (BT (removelast ks) []), (need_rebalance (removelast ks)), (last ks 0). unfold nkeys. cbn [keys_of inorder shape minocc].
    split; [reflexivity|]. split; [apply app_removelast_last; exact Hne|].
    split; [split; [rewrite removelast_length; lia|reflexivity]|]. split; [exact I|]. split; [right; rewrite removelast_length; lia|left; reflexivity].
  - destruct (kids_ok d ks cs Hs Hmin) as [Hl Hall]. pose proof (shape_len _ _ Hs) as Hlen. unfold nkeys in Hlen. cbn [keys_of] in Hlen.
    cbn [remove_last]. destruct ks as [|k0 ks0] eqn:Ek; [cbn in Hn; lia|]. rewrite <- Ek in *.
    set (i := length ks). assert (Hi : (i < length cs)%nat) by (unfold i; lia).
    destruct (Hall i Hi) as [Hsc [Hnc Hmc]].
    destruct (IH (child_at cs i) Hsc Hmc) as [c' [need [s [Er [Hio [Hsc' [Hmc' [Hnk Hcl]]]]]]]]; [lia|]. rewrite Er.
    (* the traversal with the last child replaced *)
    assert (Hflat : inorder (S d) (BT ks cs) = inorder (S d) (BT ks (set_at i c' cs)) ++ [s]).
    { cbn [inorder]. rewrite map_set_at.
      rewrite (interleave_full (map (inorder d) cs) ks) by (rewrite map_length; lia).
      rewrite (interleave_full (set_at i (inorder d c') (map (inorder d) cs)) ks) by (rewrite set_at_length; rewrite map_length; lia).
      fold i. rewrite firstn_set_at by (rewrite map_length; lia). rewrite nth_set_at by (rewrite map_length; lia).
      rewrite child_map, Hio, app_assoc. reflexivity. }
    assert (Hkids' : forall j, (j < length (set_at i c' cs))%nat -> j <> i -> kid_ok d (child_at (set_at i c' cs) j)) by (apply set_at_kids; assumption).
    assert (Hci : child_at (set_at i c' cs) i = c') by (unfold child_at; apply nth_set_at; exact Hi).
    destruct need.
    + (* the child fell below the minimum *)
      assert (Hn' : (nkeys c' = middle - 1)%nat).
      { destruct Hcl as [Hcl|[Hcl _]]; [|discriminate]. symmetry in Hcl. apply Nat.ltb_lt in Hcl. lia. }
      destruct (rebalance_spec d ks (set_at i c' cs) i) as [Hf [Hkl [Hko Hnn]]]; try (rewrite ?set_at_length; lia); try (rewrite Hci; assumption).
      { intros j Hj Hne. apply Hkids'; assumption. }
      set (t' := rebalance ks (set_at i c' cs) i) in *. destruct t' as [ks' cs'] eqn:Et. unfold nkeys in Hkl, Hnn. cbn [keys_of kids_of] in *.
      exists (BT ks' cs'), (need_rebalance ks'), s. cbn [keys_of].
      split; [reflexivity|]. split; [rewrite Hflat; f_equal; symmetry; exact Hf|].
      destruct (node_from_kids d ks' cs') as [Hs' Hm']; [lia|exact Hkl|exact Hko|].
      split; [exact Hs'|]. split; [exact Hm'|]. unfold nkeys. cbn [keys_of]. split; [lia|left; reflexivity].
    + exists (BT ks (set_at i c' cs)), false, s. split; [reflexivity|]. split; [exact Hflat|].
      assert (Hnk' : (middle <= nkeys c')%nat).
      { destruct Hcl as [Hcl|[_ Hcl]]; [symmetry in Hcl; apply Nat.ltb_ge in Hcl; exact Hcl|lia]. }
      destruct (node_from_kids d ks (set_at i c' cs)) as [Hs' Hm']; [lia|rewrite set_at_length; lia| |].
      { apply Forall_nth. intros j dflt Hj. rewrite (nth_indep _ dflt empty_node Hj). destruct (Nat.eq_dec j i) as [->|Hne].
        - fold (child_at (set_at i c' cs) i). rewrite Hci. split; [exact Hsc'|split; [exact Hnk'|exact Hmc']].
        - apply Hkids'; assumption. }
      split; [exact Hs'|]. split; [exact Hm'|]. unfold nkeys. cbn [keys_of]. split; [left; reflexivity|right; split; reflexivity].
Qed.

(* ---- removal of a key ---- *)
Definition spec_del (k : N) (l : list N) : list N := below k l ++ above k l.
Lemma spec_del_absent k a b : (forall x, In x a -> x < k) -> (forall x, In x b -> k < x) -> spec_del k (a ++ b) = a ++ b.
Proof.
  intros Ha Hb. unfold spec_del. rewrite below_app, above_app.
  destruct (below_all k a Ha) as [-> ->]. destruct (above_all k b Hb) as [-> ->]. rewrite app_nil_r. reflexivity.
Qed.
Lemma spec_del_present k a b : (forall x, In x a -> x < k) -> (forall x, In x b -> k < x) -> spec_del k (a ++ k :: b) = a ++ b.
Proof.
  intros Ha Hb. unfold spec_del. rewrite below_app, above_app.
  destruct (below_all k a Ha) as [E1 E2]. destruct (above_all k b Hb) as [E3 E4].
  unfold below, above in *. cbn [filter]. rewrite N.ltb_irrefl, E1, E2, E3, E4, app_nil_r. reflexivity.
Qed.
Lemma spec_del_inner k a m b : (forall x, In x a -> x < k) -> (forall x, In x b -> k < x) ->
  spec_del k (a ++ m ++ b) = a ++ spec_del k m ++ b.
Proof.
  intros Ha Hb. unfold spec_del. rewrite !below_app, !above_app.
  destruct (below_all k a Ha) as [-> ->]. destruct (above_all k b Hb) as [-> ->].
  rewrite app_nil_r. cbn [app]. rewrite <- !app_assoc. reflexivity.
Qed.
Lemma spec_del_sorted k l : sorted l -> sorted (spec_del k l).
Proof.
  intros Hs. unfold spec_del, below, above. apply sorted_app; [apply filter_sorted; exact Hs|apply filter_sorted; exact Hs|].
  intros x y Hx Hy. apply filter_In in Hx as [_ Hx]. apply filter_In in Hy as [_ Hy]. apply N.ltb_lt in Hx, Hy. lia.
Qed.
Lemma spec_del_in k l x : In x (spec_del k l) <-> x <> k /\ In x l.
Proof.
  unfold spec_del, below, above. rewrite in_app_iff, !filter_In, !N.ltb_lt. split.
  - intros [[H1 H2]|[H1 H2]]; split; try assumption; lia.
  - intros [Hne Hin]. destruct (N.lt_trichotomy x k) as [Hl|[->|Hg]]; [left; split; assumption|contradiction|right; split; assumption].
Qed.

Lemma keys_sorted d ks cs : length cs = S (length ks) -> sorted (interleave (map (inorder d) cs) ks) -> sorted ks.
Proof.
  revert cs. induction ks as [|x ks IHk]; intros cs Hcl Hso; [constructor|].
  destruct cs as [|c cs]; [discriminate|]. cbn [map interleave] in Hso.
  apply sorted_app_inv in Hso as [_ [Hso _]]. inversion Hso as [|? ? Hs' Hf]; subst.
  destruct cs as [|c2 cs]; [cbn in Hcl; lia|]. constructor.
  - apply (IHk (c2 :: cs)); [cbn in *; lia|exact Hs'].
  - rewrite Forall_forall in *. intros y Hy. apply Hf. clear -Hy Hcl. cbn [map].
    revert c2 cs Hcl. induction ks as [|z ks IHz]; intros c2 cs Hcl; [destruct Hy|].
    destruct cs as [|c3 cs]; [cbn in Hcl; lia|]. cbn [map interleave]. apply in_or_app. right.
    destruct Hy as [<-|Hy]; [left; reflexivity|right]. apply (IHz Hy c3 cs). cbn in *. lia.
Qed.

(* where the key is, relative to an inner node *)
Lemma descend_setup d ks cs k b i : length cs = S (length ks) -> sorted (interleave (map (inorder d) cs) ks) ->
  position k ks 0 = (b, i) ->
  let A := zipA (firstn i (map (inorder d) cs)) (firstn i ks) in
  let B := match skipn i ks with [] => [] | k0 :: ks' => k0 :: interleave (skipn (S i) (map (inorder d) cs)) ks' end in
  (i <= length ks)%nat /\ interleave (map (inorder d) cs) ks = A ++ inorder d (child_at cs i) ++ B /\
  sorted (inorder d (child_at cs i)) /\ (forall x, In x A -> x < k) /\
  (if b then nth_error ks i = Some k /\ (forall x, In x (inorder d (child_at cs i)) -> x < k) /\
            B = k :: interleave (skipn (S i) (map (inorder d) cs)) (skipn (S i) ks) /\
            (forall x, In x (interleave (skipn (S i) (map (inorder d) cs)) (skipn (S i) ks)) -> k < x)
   else forall x, In x B -> k < x).
Proof.
  intros Hcl Hso Ep A B. pose proof (keys_sorted d ks cs Hcl Hso) as Hks.
  destruct (position_spec k ks 0 b i Hks Ep) as [_ [Hi [Hlt Hrest]]]. rewrite Nat.sub_0_r in *.
  assert (Hat := interleave_at (map (inorder d) cs) ks i). rewrite map_length in Hat. specialize (Hat Hcl Hi).
  rewrite child_map in Hat. fold A B in Hat. rewrite Hat in Hso.
  destruct (sorted_app_inv _ _ Hso) as [HsA [HsMB HAMB]]. destruct (sorted_app_inv _ _ HsMB) as [HsM [HsB HMB]].
  assert (HA : forall x, In x A -> x < k).
  { intros x Hx. destruct i as [|i']; [unfold A, zipA in Hx; cbn in Hx; destruct Hx|].
    pose proof (sorted_le_last A HsA x Hx) as Hle. unfold A in Hle.
    rewrite zipA_last in Hle; [|rewrite !firstn_length, map_length; lia|destruct ks; [cbn in Hi; lia|discriminate]].
    assert (Hl : In (last (firstn (S i') ks) 0) (firstn (S i') ks)).
    { destruct (firstn (S i') ks) eqn:E; [destruct ks; [cbn in Hi; lia|discriminate]|]. rewrite <- E.
      destruct (@exists_last _ (firstn (S i') ks)) as [l' [a' El]]; [rewrite E; discriminate|]. rewrite El, last_last. apply in_or_app. right. left. reflexivity. }
    specialize (Hlt _ Hl). lia. }
  split; [exact Hi|]. split; [exact Hat|]. split; [exact HsM|]. split; [exact HA|].
  destruct b.
  - destruct Hrest as [Hn Hgt]. assert (Hi' : (i < length ks)%nat) by (apply nth_error_Some; rewrite Hn; discriminate).
    assert (EB : B = k :: interleave (skipn (S i) (map (inorder d) cs)) (skipn (S i) ks)).
    { unfold B. rewrite (skipn_cons_nth 0 i ks Hi'), (nth_error_nth ks i 0 Hn). reflexivity. }
    rewrite EB in HsB, HMB. split; [exact Hn|]. split; [intros x Hx; apply HMB; [exact Hx|left; reflexivity]|]. split; [exact EB|].
    intros x Hx. inversion HsB as [|? ? _ Hf]; subst. rewrite Forall_forall in Hf. exact (Hf x Hx).
  - intros x Hx. unfold B in Hx, HsB. destruct (skipn i ks) as [|k0 ks'] eqn:Es; [destruct Hx|].
    assert (Hk0 : k < k0) by (apply Hrest; left; reflexivity).
    destruct Hx as [<-|Hx]; [exact Hk0|]. inversion HsB as [|? ? _ Hf]; subst. rewrite Forall_forall in Hf. specialize (Hf x Hx). lia.
Qed.

(* Node::change for a removal *)
Lemma rem_spec : forall d k t, shape d t -> minocc d t -> sorted (inorder d t) -> (match d with O => True | S _ => (1 <= nkeys t)%nat end) ->
  exists t' need, rem d k t = (t', need) /\
    inorder d t' = spec_del k (inorder d t) /\ shape d t' /\ minocc d t' /\
    (nkeys t' = nkeys t \/ S (nkeys t') = nkeys t) /\ need_claim need (nkeys t) (nkeys t').
Proof.
  destruct order_val as [Ho Hm].
  induction d as [|d IH]; intros k [ks cs] Hs Hmin Hso Hn.
  - (* a leaf *)
    cbn [shape] in Hs. destruct Hs as [Hlen ->]. cbn [inorder] in Hso. cbn [rem]. destruct (position k ks 0) as [b i] eqn:Ep.
    destruct (position_spec k ks 0 b i Hso Ep) as [_ [Hi [Hlt Hrest]]]. rewrite Nat.sub_0_r in *. destruct b.
    + destruct Hrest as [Hnth Hgt]. assert (Hi' : (i < length ks)%nat) by (apply nth_error_Some; rewrite Hnth; discriminate).
      exists (BT (remove_at i ks) []), (need_rebalance (remove_at i ks)). unfold nkeys. cbn [keys_of inorder shape minocc].
      split; [reflexivity|]. split.
      { rewrite <- (firstn_skipn i ks) at 2. rewrite (skipn_cons_nth 0 i ks Hi'), (nth_error_nth ks i 0 Hnth).
        rewrite spec_del_present by assumption. reflexivity. }
      split; [split; [rewrite remove_at_length; lia|reflexivity]|]. split; [exact I|].
      split; [right; rewrite remove_at_length; lia|left; reflexivity].
    + exists (BT ks []), false. unfold nkeys. cbn [keys_of inorder shape minocc]. split; [reflexivity|]. split.
      { rewrite <- (firstn_skipn i ks) at 2. rewrite spec_del_absent by assumption. symmetry. apply firstn_skipn. }
      split; [split; [exact Hlen|reflexivity]|]. split; [exact I|]. split; [left; reflexivity|right; split; reflexivity].
  - (* an inner node *)
    destruct (kids_ok d ks cs Hs Hmin) as [Hl Hall]. pose proof (shape_len _ _ Hs) as Hlen. unfold nkeys in Hlen, Hn. cbn [keys_of] in Hlen, Hn.
    cbn [inorder] in Hso. cbn [rem]. destruct (position k ks 0) as [b i] eqn:Ep.
    destruct (descend_setup d ks cs k b i Hl Hso Ep) as [Hi [Hat [HsM [HA Hb]]]].
    set (A := zipA (firstn i (map (inorder d) cs)) (firstn i ks)) in *.
    set (B := match skipn i ks with [] => [] | k0 :: ks' => k0 :: interleave (skipn (S i) (map (inorder d) cs)) ks' end) in *.
    assert (Hic : (i < length cs)%nat) by lia.
    destruct (Hall i Hic) as [Hsc [Hnc Hmc]].
    destruct b.
    + (* the key is a separator: the largest key of the left subtree takes its place *)
      destruct Hb as [Hnth [HM [EB HB']]]. assert (Hi' : (i < length ks)%nat) by (apply nth_error_Some; rewrite Hnth; discriminate).
      set (B' := interleave (skipn (S i) (map (inorder d) cs)) (skipn (S i) ks)) in *.
      destruct (remove_last_spec d (child_at cs i) Hsc Hmc) as [c' [need [s [Er [Hio [Hsc' [Hmc' [Hnk Hcl]]]]]]]]; [lia|]. rewrite Er.
      set (ks1 := set_at i s ks). set (cs1 := set_at i c' cs).
      assert (Hl1 : length ks1 = length ks) by (apply set_at_length; exact Hi').
      assert (Hl2 : length cs1 = length cs) by (apply set_at_length; exact Hic).
      assert (Hflat : interleave (map (inorder d) cs1) ks1 = spec_del k (interleave (map (inorder d) cs) ks)).
      { rewrite Hat, EB. unfold cs1, ks1. rewrite map_set_at.
        rewrite (interleave_at (set_at i (inorder d c') (map (inorder d) cs)) (set_at i s ks) i) by (rewrite ?set_at_length; rewrite ?map_length; lia).
        rewrite firstn_set_at by (rewrite map_length; lia). rewrite (firstn_set_at i s ks) by lia. fold A.
        rewrite nth_set_at by (rewrite map_length; lia).
        rewrite (skipn_cons_nth 0 i (set_at i s ks)) by (rewrite set_at_length; lia). rewrite (nth_set_at i s ks) by lia.
        rewrite (skipn_set_at i s ks) by lia. rewrite skipn_set_at by (rewrite map_length; lia). fold B'.
        rewrite Hio. rewrite <- !app_assoc. cbn [app].
        replace (A ++ inorder d c' ++ s :: k :: B') with ((A ++ inorder d c' ++ [s]) ++ k :: B') by (rewrite <- !app_assoc; reflexivity).
        rewrite spec_del_present; [rewrite <- !app_assoc; reflexivity| |exact HB'].
        intros x Hx. apply in_app_or in Hx as [Hx|Hx]; [exact (HA x Hx)|]. apply HM. rewrite Hio. exact Hx. }
      assert (Hkids' : forall j, (j < length cs1)%nat -> j <> i -> kid_ok d (child_at cs1 j)) by (apply set_at_kids; assumption).
      assert (Hci : child_at cs1 i = c') by (unfold child_at, cs1; apply nth_set_at; exact Hic).
      destruct need.
      * assert (Hn' : (nkeys c' = middle - 1)%nat).
        { destruct Hcl as [Hcl|[Hcl _]]; [|discriminate]. symmetry in Hcl. apply Nat.ltb_lt in Hcl. lia. }
        destruct (rebalance_spec d ks1 cs1 i) as [Hf [Hkl [Hko Hnn]]]; try lia; try (rewrite Hci; assumption).
        { intros j Hj Hne. apply Hkids'; assumption. }
        set (t' := rebalance ks1 cs1 i) in *. destruct t' as [ks' cs'] eqn:Et. unfold nkeys in Hkl, Hnn. cbn [keys_of kids_of] in *.
        exists (BT ks' cs'), (need_rebalance ks'). cbn [keys_of]. split; [reflexivity|]. split; [rewrite Hf; exact Hflat|].
        destruct (node_from_kids d ks' cs') as [Hs' Hm']; [lia|exact Hkl|exact Hko|].
        split; [exact Hs'|]. split; [exact Hm'|]. unfold nkeys. cbn [keys_of]. split; [lia|left; reflexivity].
      * assert (Hnk' : (middle <= nkeys c')%nat).
        { destruct Hcl as [Hcl|[_ Hcl]]; [symmetry in Hcl; apply Nat.ltb_ge in Hcl; exact Hcl|lia]. }
        exists (BT ks1 cs1), (need_rebalance ks1). cbn [keys_of]. split; [reflexivity|]. split; [exact Hflat|].
        destruct (node_from_kids d ks1 cs1) as [Hs' Hm']; [lia|lia| |].
        { apply Forall_nth. intros j dflt Hj. rewrite (nth_indep _ dflt empty_node Hj). destruct (Nat.eq_dec j i) as [->|Hne].
          - fold (child_at cs1 i). rewrite Hci. split; [exact Hsc'|split; [exact Hnk'|exact Hmc']].
          - apply Hkids'; assumption. }
        split; [exact Hs'|]. split; [exact Hm'|]. unfold nkeys. cbn [keys_of]. rewrite Hl1. split; [left; reflexivity|].
        unfold need_claim, need_rebalance. rewrite Hl1. left. reflexivity.
    + (* the key, if it is there, is below child i *)
      assert (HsubS : sorted (inorder d (child_at cs i))) by exact HsM.
      destruct (IH k (child_at cs i) Hsc Hmc HsubS) as [c' [need [Er [Hio [Hsc' [Hmc' [Hnk Hcl]]]]]]]; [destruct d; [exact I|lia]|]. rewrite Er.
      set (cs1 := set_at i c' cs).
      assert (Hl2 : length cs1 = length cs) by (apply set_at_length; exact Hic).
      assert (Hflat : interleave (map (inorder d) cs1) ks = spec_del k (interleave (map (inorder d) cs) ks)).
      { rewrite Hat. rewrite spec_del_inner by assumption. rewrite <- Hio. unfold cs1. rewrite map_set_at.
        rewrite (interleave_at (set_at i (inorder d c') (map (inorder d) cs)) ks i) by (rewrite ?set_at_length; rewrite ?map_length; lia).
        rewrite firstn_set_at by (rewrite map_length; lia). rewrite nth_set_at by (rewrite map_length; lia).
        rewrite skipn_set_at by (rewrite map_length; lia). reflexivity. }
      assert (Hkids' : forall j, (j < length cs1)%nat -> j <> i -> kid_ok d (child_at cs1 j)) by (apply set_at_kids; assumption).
      assert (Hci : child_at cs1 i = c') by (unfold child_at, cs1; apply nth_set_at; exact Hic).
      destruct need.
      * assert (Hn' : (nkeys c' = middle - 1)%nat).
        { destruct Hcl as [Hcl|[Hcl _]]; [|discriminate]. symmetry in Hcl. apply Nat.ltb_lt in Hcl. lia. }
        destruct (rebalance_spec d ks cs1 i) as [Hf [Hkl [Hko Hnn]]]; try lia; try (rewrite Hci; assumption).
        { intros j Hj Hne. apply Hkids'; assumption. }
        set (t' := rebalance ks cs1 i) in *. destruct t' as [ks' cs'] eqn:Et. unfold nkeys in Hkl, Hnn. cbn [keys_of kids_of] in *.
        exists (BT ks' cs'), (need_rebalance ks'). cbn [keys_of]. split; [reflexivity|]. split; [rewrite Hf; exact Hflat|].
        destruct (node_from_kids d ks' cs') as [Hs' Hm']; [lia|exact Hkl|exact Hko|].
        split; [exact Hs'|]. split; [exact Hm'|]. unfold nkeys. cbn [keys_of]. split; [lia|left; reflexivity].
      * assert (Hnk' : (middle <= nkeys c')%nat).
        { destruct Hcl as [Hcl|[_ Hcl]]; [symmetry in Hcl; apply Nat.ltb_ge in Hcl; exact Hcl|lia]. }
        exists (BT ks cs1), false. split; [reflexivity|]. split; [exact Hflat|].
        destruct (node_from_kids d ks cs1) as [Hs' Hm']; [lia|lia| |].
        { apply Forall_nth. intros j dflt Hj. rewrite (nth_indep _ dflt empty_node Hj). destruct (Nat.eq_dec j i) as [->|Hne].
          - fold (child_at cs1 i). rewrite Hci. split; [exact Hsc'|split; [exact Hnk'|exact Hmc']].
          - apply Hkids'; assumption. }
        split; [exact Hs'|]. split; [exact Hm'|]. unfold nkeys. cbn [keys_of]. split; [left; reflexivity|right; split; reflexivity].
Qed.

(* ---- insertion keeps the occupancy ---- *)
Lemma forall_firstn {A} (P : A -> Prop) n l : Forall P l -> Forall P (firstn n l).
Proof. intros H. rewrite Forall_forall in *. intros x Hx. apply H. rewrite <- (firstn_skipn n l). apply in_or_app. left. exact Hx. Qed.
Lemma forall_skipn {A} (P : A -> Prop) n l : Forall P l -> Forall P (skipn n l).
Proof. intros H. rewrite Forall_forall in *. intros x Hx. apply H. rewrite <- (firstn_skipn n l). apply in_or_app. right. exact Hx. Qed.
Lemma forall_insert_at {A} (P : A -> Prop) i x l : Forall P l -> P x -> Forall P (insert_at i x l).
Proof. intros Hl Hx. unfold insert_at. apply Forall_app. split; [apply forall_firstn; exact Hl|constructor; [exact Hx|apply forall_skipn; exact Hl]]. Qed.

Definition occ (d : nat) (c : btn) : Prop := (middle <= nkeys c)%nat /\ minocc d c.

Lemma split_occ d ks cs : (length ks <= S order)%nat -> Forall (occ (pred d)) cs -> (d = O -> cs = []) ->
  match split_if_full ks cs with
  | (t', None) => t' = BT ks cs
  | (t', Some (_, rt)) => nkeys t' = middle /\ nkeys rt = middle /\ minocc d t' /\ minocc d rt
  end.
Proof.
  destruct order_val as [Ho Hm]. intros Hl Hf Hd. unfold split_if_full. destruct (Nat.ltb_spec order (length ks)) as [Hfull|Hnot]; [|reflexivity].
  unfold nkeys. cbn [keys_of]. split; [rewrite firstn_length; lia|]. split; [rewrite skipn_length; lia|].
  destruct d as [|d]; cbn [minocc kids_of pred] in *; [split; exact I|]. split; [apply forall_firstn|apply forall_skipn]; exact Hf.
Qed.

Lemma position_le k : forall ks n b i, position k ks n = (b, i) -> (i <= n + length ks)%nat.
Proof.
  induction ks as [|x ks IHk]; intros n b i H; cbn in H; [injection H as <- <-; lia|].
  destruct (k <? x); [injection H as <- <-; cbn; lia|]. destruct (k =? x); [injection H as <- <-; cbn; lia|]. apply IHk in H. cbn. lia.
Qed.

Lemma ins_occ : forall d k t, shape d t -> minocc d t ->
  match ins d k t with
  | (t', None) => minocc d t' /\ (nkeys t <= nkeys t')%nat
  | (t', Some (_, rt)) => nkeys t' = middle /\ nkeys rt = middle /\ minocc d t' /\ minocc d rt
  end.
Proof.
  destruct order_val as [Ho Hm].
  induction d as [|d IH]; intros k [ks cs] Hs Hmin; pose proof (shape_len _ _ Hs) as Hlen; unfold nkeys in Hlen; cbn [keys_of] in Hlen.
  - cbn [shape] in Hs. destruct Hs as [_ ->]. cbn [ins]. destruct (position k ks 0) as [b i] eqn:Ep.
    destruct b; [split; [exact I|lia]|].
    assert (Hi : (i <= length ks)%nat).
    { apply (position_le k ks 0%nat false i Ep). }
    pose proof (split_occ 0 (insert_at i k ks) []) as Hsp. rewrite insert_at_length in Hsp by lia.
    specialize (Hsp ltac:(lia) (Forall_nil _) (fun _ => eq_refl)).
    destruct (split_if_full (insert_at i k ks) []) as [t' [[s rt]|]]; [exact Hsp|]. subst t'. unfold nkeys. cbn [keys_of minocc]. rewrite insert_at_length by lia. split; [exact I|lia].
  - destruct (kids_ok d ks cs Hs Hmin) as [Hl Hall]. cbn [ins]. destruct (position k ks 0) as [b i] eqn:Ep.
    destruct b; [split; [exact Hmin|lia]|].
    assert (Hi : (i <= length ks)%nat).
    { apply (position_le k ks 0%nat false i Ep). }
    assert (Hic : (i < length cs)%nat) by lia. destruct (Hall i Hic) as [Hsc [Hnc Hmc]].
    specialize (IH k (child_at cs i) Hsc Hmc).
    assert (Hocc : Forall (occ d) cs).
    { apply Forall_nth. intros j dflt Hj. rewrite (nth_indep _ dflt empty_node Hj). destruct (Hall j Hj) as [_ [H1 H2]]. split; assumption. }
    destruct (ins d k (child_at cs i)) as [c' [[s rt]|]].
    + destruct IH as [Hn1 [Hn2 [Hm1 Hm2]]].
      assert (Hocc' : Forall (occ d) (insert_at (S i) rt (set_at i c' cs))).
      { apply forall_insert_at; [apply set_at_forall; [exact Hocc|split; [lia|exact Hm1]]|split; [lia|exact Hm2]]. }
      pose proof (split_occ (S d) (insert_at i s ks) (insert_at (S i) rt (set_at i c' cs))) as Hsp. rewrite insert_at_length in Hsp by lia.
      specialize (Hsp ltac:(lia) Hocc' ltac:(discriminate)).
      destruct (split_if_full (insert_at i s ks) (insert_at (S i) rt (set_at i c' cs))) as [t' [[s2 rt2]|]]; [exact Hsp|]. subst t'.
      unfold nkeys. cbn [keys_of minocc kids_of]. rewrite insert_at_length by lia. split; [exact Hocc'|lia].
    + destruct IH as [Hm1 Hn1]. unfold nkeys. cbn [keys_of minocc kids_of]. split; [|lia].
      apply set_at_forall; [exact Hocc|split; [lia|exact Hm1]].
Qed.

(* ---- the whole tree under sets and removals ---- *)
Definition tree_inv (st : nat * btn) : Prop :=
  shape (fst st) (snd st) /\ sorted (inorder (fst st) (snd st)) /\ minocc (fst st) (snd st) /\
  match fst st with O => True | S _ => (1 <= nkeys (snd st))%nat end.

Theorem bt_insert_inv st k : tree_inv st -> tree_inv (bt_insert st k) /\ elements (bt_insert st k) = spec_ins k (elements st).
Proof.
  destruct order_val as [Ho Hm]. destruct st as [d t]. intros [Hsh [Hso [Hmin Hroot]]]. cbn [fst snd] in *.
  destruct (bt_insert_spec (d, t) k (conj Hsh Hso)) as [[Hs' Hso'] He]. split; [|exact He].
  unfold bt_insert in *. pose proof (ins_occ d k t Hsh Hmin) as Hocc. destruct (ins d k t) as [t' [[s rt]|]]; cbn [fst snd] in *.
  - destruct Hocc as [Hn1 [Hn2 [Hm1 Hm2]]]. split; [exact Hs'|]. split; [exact Hso'|]. split; [|unfold nkeys; cbn; lia].
    cbn [minocc kids_of]. constructor; [split; [lia|exact Hm1]|constructor; [split; [lia|exact Hm2]|constructor]].
  - destruct Hocc as [Hm1 Hn1]. split; [exact Hs'|]. split; [exact Hso'|]. split; [exact Hm1|]. destruct d; cbn [fst snd] in Hroot |- *; [exact I|lia].
Qed.

Theorem bt_remove_inv st k : tree_inv st -> tree_inv (bt_remove st k) /\ elements (bt_remove st k) = spec_del k (elements st).
Proof.
  destruct order_val as [Ho Hm]. destruct st as [d t]. intros [Hsh [Hso [Hmin Hroot]]]. cbn [fst snd] in *. unfold bt_remove, elements. cbn [fst snd].
  destruct (rem_spec d k t Hsh Hmin Hso Hroot) as [t' [need [Er [Hio [Hs' [Hm' [Hnk Hcl]]]]]]]. rewrite Er.
  assert (Hso' : sorted (inorder d t')) by (rewrite Hio; apply spec_del_sorted; exact Hso).
  assert (Hkeep : tree_inv (d, t') \/ exists d' c, d = S d' /\ t' = BT [] [c] /\ need = true) .
  { destruct d as [|d']; [left; repeat split; assumption|]. change (1 <= nkeys t)%nat in Hroot. destruct (Nat.eq_dec (nkeys t') 0) as [H0|H0].
    - right. destruct t' as [ks' cs']. unfold nkeys in H0. cbn [keys_of] in H0. destruct ks'; [|discriminate].
      cbn [shape] in Hs'. destruct Hs' as [_ [Hl' _]]. destruct cs' as [|c [|c2 cs2]]; try discriminate. exists d', c. split; [reflexivity|]. split; [reflexivity|].
      destruct Hcl as [->|[_ Hcl]]; [reflexivity|]. unfold nkeys in Hcl, Hroot. cbn [keys_of length] in Hcl. lia.
    - left. repeat split; try assumption. cbn [fst snd]. lia. }
  destruct Hkeep as [Hinv|[d' [c [-> [-> ->]]]]].
  - assert (E : (if need then match t', d with BT [] (c :: _), S d' => (d', c) | _, _ => (d, t') end else (d, t')) = (d, t')).
    { destruct need; [|reflexivity]. destruct t' as [[|k0 ks'] [|c cs']]; try reflexivity. destruct d as [|d']; [reflexivity|].
      exfalso. destruct Hinv as [_ [_ [_ Hr]]]. cbn [fst snd] in Hr. unfold nkeys in Hr. cbn in Hr. lia. }
    rewrite E. split; [exact Hinv|exact Hio].
  - cbn [fst snd]. cbn [shape] in Hs'. destruct Hs' as [_ [_ Hfs]]. inversion Hfs as [|? ? Hsc _]; subst.
    cbn [minocc kids_of] in Hm'. inversion Hm' as [|? ? [Hnc Hmc] _]; subst.
    assert (Ei : inorder (S d') (BT [] [c]) = inorder d' c) by (cbn; reflexivity). rewrite Ei in Hio, Hso'.
    split; [|exact Hio]. split; [exact Hsc|]. split; [exact Hso'|]. split; [exact Hmc|]. cbn [fst snd]. destruct d'; [exact I|lia].
Qed.

Definition spec_step (l : list N) (o : bop) : list N := match o with BSet k => spec_ins k l | BDel k => spec_del k l end.

Lemma binit_inv : tree_inv binit.
Proof. destruct order_val as [Ho Hm]. unfold tree_inv, binit. cbn. repeat split; [lia|constructor]. Qed.

(* every tree reachable by setting and removing keys, in any order, is well shaped, sorted, balanced and
   holds exactly the keys it should *)
Theorem bsteps_keep_tree : forall ops st, tree_inv st ->
  tree_inv (fold_left bstep ops st) /\ elements (fold_left bstep ops st) = fold_left spec_step ops (elements st).
Proof.
  induction ops as [|o ops IH]; intros st H; cbn [fold_left]; [split; [exact H|reflexivity]|].
  assert (H1 : tree_inv (bstep st o) /\ elements (bstep st o) = spec_step (elements st) o).
  { destruct o as [k|k]; cbn [bstep spec_step]; [apply bt_insert_inv|apply bt_remove_inv]; exact H. }
  destruct H1 as [H1 H2]. destruct (IH _ H1) as [H3 H4]. split; [exact H3|]. rewrite H4, H2. reflexivity.
Qed.
