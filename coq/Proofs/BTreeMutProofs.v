(* C04 (mutation): setting a key in the on-disk btree - descent by the recorded depth, insertion, split
   of full nodes at the median, a new root when the root splits - keeps the tree well shaped (every leaf
   at the recorded depth, one more child than keys in every inner node, at most ORDER keys per node) and
   makes its in-order key sequence exactly the old one with the key put in its place. *)
From Coq Require Import NArith List Bool Arith Lia Sorted.
From PDB Require Import Gen.Consts Model.BTreeMut.
Import ListNotations.
Open Scope N_scope.

(* ---- in-order traversal ---- *)
Fixpoint interleave (cs : list (list N)) (ks : list N) : list N :=
  match cs, ks with
  | c :: cs', k :: ks' => c ++ k :: interleave cs' ks'
  | c :: _, [] => c
  | [], _ => []
  end.
Fixpoint inorder (d : nat) (t : btn) : list N :=
  match t with
  | BT ks cs => match d with O => ks | S d' => interleave (map (inorder d') cs) ks end
  end.
Fixpoint shape (d : nat) (t : btn) : Prop :=
  match t with
  | BT ks cs =>
      (length ks <= order)%nat /\
      match d with O => cs = [] | S d' => length cs = S (length ks) /\ Forall (shape d') cs end
  end.

(* ---- the specification on sorted lists ---- *)
Definition below (k : N) (l : list N) : list N := filter (fun x => x <? k) l.
Definition above (k : N) (l : list N) : list N := filter (fun x => k <? x) l.
Definition spec_ins (k : N) (l : list N) : list N := below k l ++ k :: above k l.
Definition sorted (l : list N) : Prop := StronglySorted N.lt l.

Lemma below_app k a b : below k (a ++ b) = below k a ++ below k b.
Proof. apply filter_app. Qed.
Lemma above_app k a b : above k (a ++ b) = above k a ++ above k b.
Proof. apply filter_app. Qed.
Lemma below_all k l : (forall x, In x l -> x < k) -> below k l = l /\ above k l = [].
Proof.
  unfold below, above. induction l as [|a l IH]; intros H; [split; reflexivity|]. cbn [filter].
  assert (Ha : a < k) by (apply H; left; reflexivity). destruct (IH (fun x Hx => H x (or_intror Hx))) as [I1 I2].
  destruct (N.ltb_spec a k); [|lia]. destruct (N.ltb_spec k a); [lia|]. rewrite I1, I2. split; reflexivity.
Qed.
Lemma above_all k l : (forall x, In x l -> k < x) -> below k l = [] /\ above k l = l.
Proof.
  unfold below, above. induction l as [|a l IH]; intros H; [split; reflexivity|]. cbn [filter].
  assert (Ha : k < a) by (apply H; left; reflexivity). destruct (IH (fun x Hx => H x (or_intror Hx))) as [I1 I2].
  destruct (N.ltb_spec a k); [lia|]. destruct (N.ltb_spec k a); [|lia]. rewrite I1, I2. split; reflexivity.
Qed.

Lemma sorted_app_inv a b : sorted (a ++ b) -> sorted a /\ sorted b /\ forall x y, In x a -> In y b -> x < y.
Proof.
  induction a as [|x a IH]; cbn; intros H; [split; [constructor|split; [exact H|intros ? ? []]]|].
  inversion H as [|? ? Hs Hf]; subst. destruct (IH Hs) as [Ha [Hb Hab]]. rewrite Forall_forall in Hf.
  split; [constructor; [exact Ha|apply Forall_forall; intros y Hy; apply Hf; apply in_or_app; left; exact Hy]|].
  split; [exact Hb|]. intros x0 y [<-|Hx0] Hy; [apply Hf; apply in_or_app; right; exact Hy|exact (Hab x0 y Hx0 Hy)].
Qed.
Lemma sorted_app a b : sorted a -> sorted b -> (forall x y, In x a -> In y b -> x < y) -> sorted (a ++ b).
Proof.
  induction a as [|x a IH]; cbn; intros Ha Hb H; [exact Hb|]. inversion Ha as [|? ? Hs Hf]; subst.
  constructor; [apply IH; [exact Hs|exact Hb|intros; apply H; [right|]; assumption]|].
  apply Forall_app. split; [exact Hf|]. apply Forall_forall. intros y Hy. apply H; [left; reflexivity|exact Hy].
Qed.

(* the key is already there: nothing changes; otherwise it lands between the smaller and the larger keys *)
Lemma spec_ins_mid k a b : (forall x, In x a -> x < k) -> (forall x, In x b -> k < x) -> spec_ins k (a ++ b) = a ++ k :: b.
Proof.
  intros Ha Hb. unfold spec_ins. rewrite below_app, above_app.
  destruct (below_all k a Ha) as [-> ->]. destruct (above_all k b Hb) as [-> ->]. rewrite app_nil_r. reflexivity.
Qed.
Lemma spec_ins_present k a b : (forall x, In x a -> x < k) -> (forall x, In x b -> k < x) -> spec_ins k (a ++ k :: b) = a ++ k :: b.
Proof.
  intros Ha Hb. unfold spec_ins. rewrite below_app, above_app.
  destruct (below_all k a Ha) as [E1 E2]. destruct (above_all k b Hb) as [E3 E4].
  unfold below, above in *. cbn [filter]. rewrite N.ltb_irrefl, E1, E2, E3, E4, app_nil_r. reflexivity.
Qed.
(* ... and inside a sorted concatenation only the middle part is touched *)
Lemma spec_ins_inner k a m b : (forall x, In x a -> x < k) -> (forall x, In x b -> k < x) ->
  spec_ins k (a ++ m ++ b) = a ++ spec_ins k m ++ b.
Proof.
  intros Ha Hb. unfold spec_ins. rewrite !below_app, !above_app.
  destruct (below_all k a Ha) as [-> ->]. destruct (above_all k b Hb) as [-> ->].
  rewrite app_nil_r. cbn. rewrite <- !app_assoc. reflexivity.
Qed.
Lemma filter_sorted (f : N -> bool) l : sorted l -> sorted (filter f l).
Proof.
  induction 1 as [|a l Hs IH Hf]; cbn; [constructor|]. destruct (f a); [|exact IH].
  constructor; [exact IH|]. rewrite Forall_forall in *. intros x Hx. apply filter_In in Hx as [Hx _]. exact (Hf x Hx).
Qed.
Lemma spec_ins_sorted k l : sorted l -> sorted (spec_ins k l).
Proof.
  intros Hs. unfold spec_ins, below, above.
  apply sorted_app; [apply filter_sorted; exact Hs| |].
  - constructor; [apply filter_sorted; exact Hs|]. apply Forall_forall. intros x Hx. apply filter_In in Hx as [_ Hx]. apply N.ltb_lt. exact Hx.
  - intros x y Hx [<-|Hy].
    + apply filter_In in Hx as [_ Hx]. apply N.ltb_lt. exact Hx.
    + apply filter_In in Hx as [_ Hx]. apply filter_In in Hy as [_ Hy]. apply N.ltb_lt in Hx, Hy. lia.
Qed.

(* ---- Node::position on a sorted key list ---- *)
Lemma position_spec k : forall ks n b i, sorted ks -> position k ks n = (b, i) ->
  (n <= i)%nat /\ (i - n <= length ks)%nat /\
  (forall x, In x (firstn (i - n) ks) -> x < k) /\
  (if b then nth_error ks (i - n) = Some k /\ (forall x, In x (skipn (S (i - n)) ks) -> k < x)
   else forall x, In x (skipn (i - n) ks) -> k < x).
Proof.
  induction ks as [|x ks IH]; intros n b i Hs H; cbn in H.
  - injection H as <- <-. rewrite Nat.sub_diag. cbn. repeat split; try lia; intros ? [].
  - inversion Hs as [|? ? Hs' Hf]; subst. rewrite Forall_forall in Hf.
    destruct (N.ltb_spec k x) as [Hlt|Hge].
    + injection H as <- <-. rewrite Nat.sub_diag. cbn [firstn skipn]. repeat split; try lia; [intros ? []|].
      intros y [<-|Hy]; [exact Hlt|]. specialize (Hf y Hy). lia.
    + destruct (N.eqb_spec k x) as [->|Hne].
      * injection H as <- <-. rewrite Nat.sub_diag. cbn [firstn skipn nth_error]. repeat split; try lia; [intros ? []|].
        intros y Hy. exact (Hf y Hy).
      * apply IH in H as [H1 [H2 [H3 H4]]]; [|exact Hs']. replace (i - n)%nat with (S (i - S n)) by lia.
        split; [lia|]. split; [cbn [length]; lia|]. split.
        -- cbn [firstn]. intros y [<-|Hy]; [lia|exact (H3 y Hy)].
        -- destruct b; cbn [skipn nth_error]; exact H4.
Qed.

(* ---- list surgery ---- *)
Definition zipA (cs : list (list N)) (ks : list N) : list N := flat_map (fun p => fst p ++ [snd p]) (combine cs ks).
Lemma interleave_app cs1 : forall ks1 cs2 ks2, length cs1 = length ks1 ->
  interleave (cs1 ++ cs2) (ks1 ++ ks2) = zipA cs1 ks1 ++ interleave cs2 ks2.
Proof.
  induction cs1 as [|c cs1 IH]; intros [|k ks1] cs2 ks2 H; cbn in *; try discriminate; [reflexivity|].
  rewrite IH by lia. unfold zipA. cbn. rewrite <- !app_assoc. reflexivity.
Qed.
Lemma zipA_app cs1 : forall ks1 cs2 ks2, length cs1 = length ks1 -> zipA (cs1 ++ cs2) (ks1 ++ ks2) = zipA cs1 ks1 ++ zipA cs2 ks2.
Proof.
  induction cs1 as [|c cs1 IH]; intros [|k ks1] cs2 ks2 H; cbn in *; try discriminate; [reflexivity|].
  unfold zipA in *. cbn. rewrite IH by lia. rewrite <- !app_assoc. reflexivity.
Qed.

Lemma firstn_skipn_len {A} (i : nat) (l : list A) : (i <= length l)%nat -> length (firstn i l) = i.
Proof. intros H. rewrite firstn_length. lia. Qed.

Lemma skipn_cons_nth {A} (d : A) : forall i (l : list A), (i < length l)%nat -> skipn i l = nth i l d :: skipn (S i) l.
Proof. induction i as [|i IH]; intros [|x l] H; cbn in *; try lia; [reflexivity|apply IH; lia]. Qed.

(* the traversal of an inner node around child i *)
Lemma interleave_at cs ks i : length cs = S (length ks) -> (i <= length ks)%nat ->
  interleave cs ks = zipA (firstn i cs) (firstn i ks) ++ nth i cs [] ++
                     match skipn i ks with [] => [] | k :: ks' => k :: interleave (skipn (S i) cs) ks' end.
Proof.
  intros Hl Hi. rewrite <- (firstn_skipn i cs) at 1. rewrite <- (firstn_skipn i ks) at 1.
  rewrite interleave_app by (rewrite !firstn_length; lia). f_equal.
  rewrite (skipn_cons_nth [] i cs) by lia. cbn [interleave]. destruct (skipn i ks); [rewrite app_nil_r|]; reflexivity.
Qed.

Lemma order_val : order = 8%nat /\ middle = 4%nat.
Proof. split; vm_compute; reflexivity. Qed.

Lemma firstn_S_nth {A} (d : A) : forall i (l : list A), (i < length l)%nat -> firstn (S i) l = firstn i l ++ [nth i l d].
Proof. induction i as [|i IH]; intros [|x l] H; cbn in *; try lia; [reflexivity|rewrite IH by lia; reflexivity]. Qed.

(* the median split of an inner node *)
Lemma interleave_median cs ks m : length cs = S (length ks) -> (m < length ks)%nat ->
  interleave cs ks = interleave (firstn (S m) cs) (firstn m ks) ++ nth m ks 0 :: interleave (skipn (S m) cs) (skipn (S m) ks).
Proof.
  intros Hl Hm. rewrite (interleave_at cs ks m Hl) by lia. rewrite (skipn_cons_nth 0 m ks Hm).
  rewrite (firstn_S_nth [] m cs) by lia.
  replace (firstn m ks) with (firstn m ks ++ []) at 2 by apply app_nil_r.
  rewrite interleave_app by (rewrite !firstn_length; lia). cbn [interleave]. rewrite <- app_assoc. reflexivity.
Qed.

(* ---- set_at / insert_at ---- *)
Lemma set_at_length {A} i (x : A) l : (i < length l)%nat -> length (set_at i x l) = length l.
Proof. intros H. unfold set_at. rewrite app_length, firstn_length. cbn [length]. rewrite skipn_length. lia. Qed.
Lemma insert_at_length {A} i (x : A) l : (i <= length l)%nat -> length (insert_at i x l) = S (length l).
Proof. intros H. unfold insert_at. rewrite app_length, firstn_length. cbn [length]. rewrite skipn_length. lia. Qed.
Lemma map_set_at {A B} (f : A -> B) i x l : map f (set_at i x l) = set_at i (f x) (map f l).
Proof. unfold set_at. rewrite map_app. cbn [map]. rewrite firstn_map, skipn_map. reflexivity. Qed.
Lemma set_at_forall {A} (P : A -> Prop) i x l : Forall P l -> P x -> Forall P (set_at i x l).
Proof.
  intros Hl Hx. unfold set_at. rewrite Forall_forall in Hl. apply Forall_app. split.
  - apply Forall_forall. intros y Hy. apply Hl. rewrite <- (firstn_skipn i l). apply in_or_app. left. exact Hy.
  - constructor; [exact Hx|]. apply Forall_forall. intros y Hy. apply Hl. rewrite <- (firstn_skipn (S i) l). apply in_or_app. right. exact Hy.
Qed.

Lemma sorted_le_last l : sorted l -> forall x, In x l -> x <= last l 0.
Proof.
  induction 1 as [|a l Hs IH Hf]; intros x Hx; [destruct Hx|]. rewrite Forall_forall in Hf.
  destruct l as [|b l]; [destruct Hx as [<-|[]]; cbn; lia|].
  change (last (a :: b :: l) 0) with (last (b :: l) 0).
  destruct Hx as [<-|Hx]; [|exact (IH x Hx)]. specialize (IH b (or_introl eq_refl)). specialize (Hf b (or_introl eq_refl)). lia.
Qed.
Lemma last_app_single {A} (l : list A) x d : last (l ++ [x]) d = x.
Proof. apply last_last. Qed.
Lemma zipA_last cs1 : forall ks1, length cs1 = length ks1 -> ks1 <> [] -> last (zipA cs1 ks1) 0 = last ks1 0.
Proof.
  intros ks1 Hl Hne. destruct (exists_last Hne) as [ks0 [k ->]].
  assert (Hc : cs1 <> []) by (destruct cs1; [rewrite app_length in Hl; cbn in Hl; lia|discriminate]).
  destruct (exists_last Hc) as [cs0 [c ->]]. rewrite !app_length in Hl. cbn in Hl.
  rewrite zipA_app by lia. unfold zipA at 2. cbn. rewrite app_nil_r, app_assoc, !last_app_single. reflexivity.
Qed.
Lemma inorder_empty d : inorder d empty_node = [].
Proof. destruct d; reflexivity. Qed.

Definition flat (d : nat) (r : btn * option (N * btn)) : list N :=
  match r with
  | (t, None) => inorder d t
  | (t, Some (s, rt)) => inorder d t ++ s :: inorder d rt
  end.
Definition shape_res (d : nat) (r : btn * option (N * btn)) : Prop :=
  shape d (fst r) /\ match snd r with None => True | Some (_, rt) => shape d rt end.

Lemma firstn_middle_nth (l : list N) m : (m < length l)%nat -> firstn m l ++ nth m l 0 :: skipn (S m) l = l.
Proof. intros H. rewrite <- (firstn_skipn m l) at 4. rewrite (skipn_cons_nth 0 m l H). reflexivity. Qed.

(* splitting keeps the traversal and gives two well-shaped nodes *)
Lemma split_leaf ks : (length ks <= S order)%nat -> flat 0 (split_if_full ks []) = ks /\ shape_res 0 (split_if_full ks []).
Proof.
  destruct order_val as [Ho Hm]. intros Hl. unfold split_if_full. destruct (Nat.ltb_spec order (length ks)) as [Hfull|Hnot].
  - cbn [flat inorder]. split; [apply firstn_middle_nth; lia|]. split; cbn [fst snd shape].
    + split; [rewrite firstn_length; lia|destruct (S middle); reflexivity].
    + split; [rewrite skipn_length; lia|destruct (S middle); reflexivity].
  - cbn [flat inorder]. split; [reflexivity|]. split; cbn [fst snd shape]; [split; [lia|reflexivity]|exact I].
Qed.
Lemma split_inner d ks cs : (length ks <= S order)%nat -> length cs = S (length ks) -> Forall (shape d) cs ->
  flat (S d) (split_if_full ks cs) = interleave (map (inorder d) cs) ks /\ shape_res (S d) (split_if_full ks cs).
Proof.
  destruct order_val as [Ho Hm]. intros Hl Hc Hs. unfold split_if_full. destruct (Nat.ltb_spec order (length ks)) as [Hfull|Hnot].
  - cbn [flat inorder]. split.
    + rewrite (interleave_median (map (inorder d) cs) ks middle) by (rewrite ?map_length; lia).
      rewrite firstn_map, skipn_map. reflexivity.
    + assert (HF1 : Forall (shape d) (firstn (S middle) cs)).
      { rewrite Forall_forall in *. intros x Hx. apply Hs. rewrite <- (firstn_skipn (S middle) cs). apply in_or_app. left. exact Hx. }
      assert (HF2 : Forall (shape d) (skipn (S middle) cs)).
      { rewrite Forall_forall in *. intros x Hx. apply Hs. rewrite <- (firstn_skipn (S middle) cs). apply in_or_app. right. exact Hx. }
      split; cbn [fst snd shape].
      * split; [rewrite firstn_length; lia|]. split; [rewrite !firstn_length; lia|exact HF1].
      * split; [rewrite skipn_length; lia|]. split; [rewrite !skipn_length; lia|exact HF2].
  - cbn [flat inorder]. split; [reflexivity|]. split; cbn [fst snd shape]; [|exact I]. split; [lia|]. split; assumption.
Qed.

(* ---- insertion ---- *)
Lemma nth_set_at {A} i (x : A) l d : (i < length l)%nat -> nth i (set_at i x l) d = x.
Proof.
  intros H. unfold set_at. rewrite app_nth2 by (rewrite firstn_length; lia). rewrite firstn_length.
  replace (i - Nat.min i (length l))%nat with O by lia. reflexivity.
Qed.
Lemma firstn_set_at {A} i (x : A) l : (i <= length l)%nat -> firstn i (set_at i x l) = firstn i l.
Proof.
  intros H. unfold set_at. rewrite firstn_app, firstn_length. replace (i - Nat.min i (length l))%nat with O by lia.
  rewrite firstn_O, app_nil_r, firstn_firstn. f_equal. lia.
Qed.
Lemma skipn_set_at {A} i (x : A) l : (i < length l)%nat -> skipn (S i) (set_at i x l) = skipn (S i) l.
Proof.
  intros H. unfold set_at. rewrite skipn_app, firstn_length. replace (S i - Nat.min i (length l))%nat with 1%nat by lia.
  rewrite skipn_all2 by (rewrite firstn_length; lia). reflexivity.
Qed.

Lemma ins_spec : forall d k t, shape d t -> sorted (inorder d t) ->
  flat d (ins d k t) = spec_ins k (inorder d t) /\ shape_res d (ins d k t).
Proof.
  destruct order_val as [Ho Hm].
  induction d as [|d IH]; intros k [ks cs] Hsh Hso; cbn [shape] in Hsh; destruct Hsh as [Hlen Hsh].
  - (* a leaf *)
    subst cs. cbn [inorder] in Hso. cbn [ins]. destruct (position k ks 0) as [b i] eqn:Ep.
    destruct (position_spec k ks 0 b i Hso Ep) as [_ [Hi [Hlt Hrest]]]. rewrite Nat.sub_0_r in *.
    destruct b.
    + destruct Hrest as [Hn Hgt]. cbn [flat inorder]. split; [|split; cbn [fst snd shape]; [split; [exact Hlen|reflexivity]|exact I]].
      assert (Hi' : (i < length ks)%nat) by (apply nth_error_Some; rewrite Hn; discriminate).
      assert (E : firstn i ks ++ k :: skipn (S i) ks = ks).
      { rewrite <- (firstn_skipn i ks) at 3. rewrite (skipn_cons_nth 0 i ks Hi'), (nth_error_nth ks i 0 Hn). reflexivity. }
      rewrite <- E at 2. rewrite spec_ins_present by assumption. symmetry. exact E.
    + assert (Hins : insert_at i k ks = spec_ins k ks).
      { rewrite <- (firstn_skipn i ks) at 2. rewrite spec_ins_mid by assumption. reflexivity. }
      destruct (split_leaf (insert_at i k ks)) as [Hf Hs]; [rewrite insert_at_length by lia; lia|].
      cbn [inorder]. rewrite Hf. split; [exact Hins|exact Hs].
  - (* an inner node *)
    destruct Hsh as [Hcl Hcs]. cbn [inorder] in Hso. cbn [ins]. destruct (position k ks 0) as [b i] eqn:Ep.
    assert (Hks : sorted ks).
    { clear -Hso Hcl. revert cs Hcl Hso. induction ks as [|x ks IHk]; intros cs Hcl Hso; [constructor|].
      destruct cs as [|c cs]; [discriminate|]. cbn [map interleave] in Hso.
      apply sorted_app_inv in Hso as [_ [Hso _]]. inversion Hso as [|? ? Hs' Hf]; subst.
      destruct cs as [|c2 cs]; [cbn in Hcl; lia|]. constructor.
      - apply (IHk (c2 :: cs)); [cbn in *; lia|exact Hs'].
      - rewrite Forall_forall in *. intros y Hy. apply Hf. clear -Hy Hcl. cbn [map].
        revert c2 cs Hcl. induction ks as [|z ks IHz]; intros c2 cs Hcl; [destruct Hy|].
        destruct cs as [|c3 cs]; [cbn in Hcl; lia|]. cbn [map interleave]. apply in_or_app. right.
        destruct Hy as [<-|Hy]; [left; reflexivity|right]. apply (IHz Hy c3 cs). cbn in *. lia. }
    destruct (position_spec k ks 0 b i Hks Ep) as [_ [Hi [Hlt Hrest]]]. rewrite Nat.sub_0_r in *.
    set (f := inorder d) in *.
    assert (Hat := interleave_at (map f cs) ks i). rewrite map_length in Hat. specialize (Hat Hcl Hi).
    set (A := zipA (firstn i (map f cs)) (firstn i ks)) in *.
    set (B := match skipn i ks with [] => [] | k0 :: ks' => k0 :: interleave (skipn (S i) (map f cs)) ks' end) in *.
    assert (HM : nth i (map f cs) [] = f (child_at cs i)).
    { unfold child_at. rewrite <- (inorder_empty d). fold f. apply map_nth. }
    rewrite HM in Hat. rewrite Hat in Hso.
    destruct (sorted_app_inv _ _ Hso) as [HsA [HsMB HAMB]]. destruct (sorted_app_inv _ _ HsMB) as [HsM [HsB HMB]].
    assert (HA : forall x, In x A -> x < k).
    { intros x Hx. destruct i as [|i']; [unfold A, zipA in Hx; cbn in Hx; destruct Hx|].
      pose proof (sorted_le_last A HsA x Hx) as Hle. unfold A in Hle.
      rewrite zipA_last in Hle; [|rewrite !firstn_length, map_length; lia|destruct ks; [cbn in Hi; lia|discriminate]].
      assert (Hl : In (last (firstn (S i') ks) 0) (firstn (S i') ks)).
      { destruct (firstn (S i') ks) eqn:E; [destruct ks; [cbn in Hi; lia|discriminate]|]. rewrite <- E.
        destruct (@exists_last _ (firstn (S i') ks)) as [l' [a' El]]; [rewrite E; discriminate|]. rewrite El, last_last. apply in_or_app. right. left. reflexivity. }
      specialize (Hlt _ Hl). lia. }
    assert (Hfst : forall x, In x (skipn i ks) -> k <= x).
    { destruct b; [destruct Hrest as [Hn Hgt]|]; intros x Hx.
      - assert (Hi' : (i < length ks)%nat) by (apply nth_error_Some; rewrite Hn; discriminate).
        rewrite (skipn_cons_nth 0 i ks Hi'), (nth_error_nth ks i 0 Hn) in Hx. destruct Hx as [<-|Hx]; [lia|]. specialize (Hgt x Hx). lia.
      - specialize (Hrest x Hx). lia. }
    destruct b.
    + (* the key is a separator of this node *)
      destruct Hrest as [Hn Hgt]. cbn [flat inorder]. fold f. split; [|split; cbn [fst snd shape]; [split; [exact Hlen|split; assumption]|exact I]].
      assert (Hi' : (i < length ks)%nat) by (apply nth_error_Some; rewrite Hn; discriminate).
      assert (EB : B = k :: interleave (skipn (S i) (map f cs)) (skipn (S i) ks)).
      { unfold B. rewrite (skipn_cons_nth 0 i ks Hi'), (nth_error_nth ks i 0 Hn). reflexivity. }
      set (B' := interleave (skipn (S i) (map f cs)) (skipn (S i) ks)) in EB.
      rewrite Hat, EB. rewrite EB in HsB, HMB.
      replace (A ++ f (child_at cs i) ++ k :: B') with ((A ++ f (child_at cs i)) ++ k :: B') by (rewrite <- app_assoc; reflexivity).
      symmetry. apply spec_ins_present.
      * intros x Hx. apply in_app_or in Hx as [Hx|Hx]; [exact (HA x Hx)|]. apply HMB; [exact Hx|left; reflexivity].
      * intros x Hx. inversion HsB as [|? ? _ Hf]; subst. rewrite Forall_forall in Hf. exact (Hf x Hx).
    + (* descend into child i *)
      assert (HB : forall x, In x B -> k < x).
      { intros x Hx. unfold B in Hx, HsB. destruct (skipn i ks) as [|k0 ks'] eqn:Es; [destruct Hx|].
        assert (Hk0 : k < k0) by (apply Hrest; left; reflexivity).
        destruct Hx as [<-|Hx]; [exact Hk0|]. inversion HsB as [|? ? _ Hf]; subst. rewrite Forall_forall in Hf. specialize (Hf x Hx). lia. }
      assert (Hci : (i < length cs)%nat) by lia.
      assert (Hshc : shape d (child_at cs i)) by (rewrite Forall_forall in Hcs; apply Hcs; apply nth_In; exact Hci).
      destruct (IH k (child_at cs i) Hshc HsM) as [Hflat Hshr].
      destruct (ins d k (child_at cs i)) as [c' up] eqn:Ei.
      assert (Hspec : spec_ins k (interleave (map f cs) ks) = A ++ spec_ins k (f (child_at cs i)) ++ B).
      { rewrite Hat. apply spec_ins_inner; assumption. }
      destruct Hshr as [Hsc' Hsup]. cbn [fst snd] in Hsc', Hsup.
      destruct up as [[s rt]|].
      * (* the child split *)
        cbn [flat] in Hflat.
        assert (Hl1 : (length (insert_at i s ks) <= S order)%nat) by (rewrite insert_at_length by lia; lia).
        assert (Hl2 : length (insert_at (S i) rt (set_at i c' cs)) = S (length (insert_at i s ks))).
        { rewrite !insert_at_length; rewrite ?set_at_length; lia. }
        assert (Hl3 : Forall (shape d) (insert_at (S i) rt (set_at i c' cs))).
        { unfold insert_at. pose proof (set_at_forall (shape d) i c' cs Hcs Hsc') as Hall. rewrite Forall_forall in Hall.
          apply Forall_app. split; [apply Forall_forall; intros y Hy; apply Hall; rewrite <- (firstn_skipn (S i) (set_at i c' cs)); apply in_or_app; left; exact Hy|].
          constructor; [exact Hsup|]. apply Forall_forall. intros y Hy. apply Hall. rewrite <- (firstn_skipn (S i) (set_at i c' cs)). apply in_or_app. right. exact Hy. }
        destruct (split_inner d _ _ Hl1 Hl2 Hl3) as [Hf Hs]. rewrite Hf. split; [|exact Hs].
        cbn [inorder]. fold f. rewrite Hspec, <- Hflat.
        (* the traversal with the new separator and child put in *)
        unfold insert_at. rewrite map_app. cbn [map]. rewrite <- firstn_map, <- skipn_map, map_set_at. fold f.
        rewrite (firstn_S_nth [] i (set_at i (f c') (map f cs))) by (rewrite set_at_length; rewrite map_length; lia).
        rewrite firstn_set_at by (rewrite map_length; lia). rewrite nth_set_at by (rewrite map_length; lia). rewrite skipn_set_at by (rewrite map_length; lia).
        rewrite <- app_assoc. cbn [app].
        rewrite interleave_app by (rewrite !firstn_length, map_length; lia). fold A.
        cbn [interleave]. unfold B. destruct (skipn i ks); rewrite <- ?app_assoc; cbn [app]; rewrite ?app_nil_r; reflexivity.
      * (* the child took the key *)
        cbn [flat] in Hflat. cbn [flat inorder]. fold f. split.
        -- rewrite Hspec, <- Hflat. rewrite map_set_at. fold f.
           rewrite (interleave_at (set_at i (f c') (map f cs)) ks i) by (rewrite ?set_at_length; rewrite ?map_length; lia).
           rewrite firstn_set_at by (rewrite map_length; lia). rewrite nth_set_at by (rewrite map_length; lia). rewrite skipn_set_at by (rewrite map_length; lia). reflexivity.
        -- split; cbn [fst snd shape]; [|exact I]. split; [exact Hlen|]. split; [rewrite set_at_length; lia|apply set_at_forall; assumption].
Qed.

(* ---- the tree as a whole: Operation::Set through BTree::write_sorted_changes ---- *)
Definition tree_ok (st : nat * btn) : Prop := shape (fst st) (snd st) /\ sorted (inorder (fst st) (snd st)).
Definition elements (st : nat * btn) : list N := inorder (fst st) (snd st).

Theorem bt_insert_spec st k : tree_ok st ->
  tree_ok (bt_insert st k) /\ elements (bt_insert st k) = spec_ins k (elements st).
Proof.
  destruct order_val as [Ho Hm]. destruct st as [d t]. intros [Hsh Hso]. cbn [fst snd] in *. unfold bt_insert, elements. cbn [fst snd].
  pose proof (ins_spec d k t Hsh Hso) as Hspec. destruct (ins d k t) as [t' [[s rt]|]]; destruct Hspec as [Hf [Hs1 Hs2]]; unfold flat in Hf; cbn [fst snd] in Hs1, Hs2.
  - assert (E : inorder (S d) (BT [s] [t'; rt]) = inorder d t' ++ s :: inorder d rt) by (cbn; rewrite ?app_nil_r; reflexivity).
    split; [split|]; cbn [fst snd].
    + cbn [shape]. split; [cbn; lia|]. split; [reflexivity|]. constructor; [exact Hs1|constructor; [exact Hs2|constructor]].
    + rewrite E, Hf. apply spec_ins_sorted. exact Hso.
    + rewrite E. exact Hf.
  - split; [split; [exact Hs1|cbn [fst snd]; rewrite Hf; apply spec_ins_sorted; exact Hso]|exact Hf].
Qed.

Lemma binit_ok : tree_ok binit /\ elements binit = [].
Proof. destruct order_val as [Ho Hm]. split; [split; cbn; [split; [lia|reflexivity]|constructor]|reflexivity]. Qed.

(* any number of keys set one after the other, in any order, repeated or not *)
Theorem inserts_keep_tree : forall ks st, tree_ok st ->
  tree_ok (fold_left bt_insert ks st) /\ elements (fold_left bt_insert ks st) = fold_left (fun l k => spec_ins k l) ks (elements st).
Proof.
  induction ks as [|k ks IH]; intros st H; cbn [fold_left]; [split; [exact H|reflexivity]|].
  destruct (bt_insert_spec st k H) as [H1 H2]. destruct (IH _ H1) as [H3 H4]. split; [exact H3|]. rewrite H4, H2. reflexivity.
Qed.

(* what spec_ins is on a sorted list: the key is in, everything else stays, nothing else comes *)
Lemma spec_ins_in k l x : sorted l -> (In x (spec_ins k l) <-> x = k \/ In x l).
Proof.
  intros _. unfold spec_ins, below, above. rewrite in_app_iff. cbn [In]. rewrite !filter_In, !N.ltb_lt. split.
  - intros [[H _]|[H|[H _]]]; auto.
  - intros [->|H]; [right; left; reflexivity|]. destruct (N.lt_trichotomy x k) as [Hl|[->|Hg]]; [left; split; assumption|right; left; reflexivity|right; right; split; assumption].
Qed.
