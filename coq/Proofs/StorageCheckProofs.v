(* Soundness of the value-table checker: an accepted dump uses every slot below the fill mark exactly
   once - as a node of the (acyclic, in-range, properly linked) free list or as a part of exactly one
   well-formed value chain. *)
From Coq Require Import NArith List Bool Arith Lia Permutation.
From PDB Require Import Model.StorageCheck.
Import ListNotations.
Open Scope N_scope.

Inductive linkedf (d : tdump) : N -> list N -> Prop :=
| lf_nil : linkedf d 0 []
| lf_cons i nx l : i <> 0 -> slot_at d i = Some (RFree nx) -> linkedf d nx l -> linkedf d i (i :: l).

Inductive linkedp (d : tdump) : N -> list N -> Prop :=
| lp_last i : slot_at d i = Some RSize -> linkedp d i [i]
| lp_part i nx l : slot_at d i = Some (RPart nx) -> linkedp d nx l -> linkedp d i (i :: l).

Definition chain_wf (d : tdump) (c : list N) : Prop :=
  (exists i, c = [i] /\ slot_at d i = Some RSize /\ memN i (targets d) = false) \/
  (exists i nx ps, c = i :: ps /\ slot_at d i = Some (RHead nx) /\ linkedp d nx ps).

Lemma walk_free_spec d fuel : forall i l, walk_free fuel d i = Some l -> linkedf d i l.
Proof.
  induction fuel as [|f IH]; intros i l; cbn [walk_free].
  - destruct (N.eqb_spec i 0) as [->|]; [|discriminate]. intros E. injection E as <-. constructor.
  - destruct (N.eqb_spec i 0) as [->|Hi]; [intros E; injection E as <-; constructor|].
    destruct (slot_at d i) as [[nx|nx|nx| |]|] eqn:Es; try discriminate.
    destruct (walk_free f d nx) as [l'|] eqn:Ew; [|discriminate]. cbn [option_map]. intros E. injection E as <-.
    econstructor; [exact Hi|exact Es|apply IH; exact Ew].
Qed.

Lemma walk_parts_spec d fuel : forall i l, walk_parts fuel d i = Some l -> linkedp d i l.
Proof.
  induction fuel as [|f IH]; intros i l; cbn [walk_parts]; [discriminate|].
  destruct (slot_at d i) as [[nx|nx|nx| |]|] eqn:Es; try discriminate.
  - destruct (walk_parts f d nx) as [l'|] eqn:Ew; [|discriminate]. cbn [option_map]. intros E. injection E as <-.
    eapply lp_part; [exact Es|apply IH; exact Ew].
  - intros E. injection E as <-. apply lp_last. exact Es.
Qed.

Lemma chains_fold_spec d fuel : forall idx cs,
  fold_right (fun i acc =>
    match acc with
    | None => None
    | Some cs =>
        match slot_at d i with
        | Some (RHead nx) => match walk_parts fuel d nx with Some ps => Some ((i :: ps) :: cs) | None => None end
        | Some RSize => if memN i (targets d) then Some cs else Some ([i] :: cs)
        | _ => Some cs
        end
    end) (Some []) idx = Some cs -> Forall (chain_wf d) cs.
Proof.
  induction idx as [|i idx IH]; intros cs; cbn [fold_right].
  - intros E. injection E as <-. constructor.
  - match goal with |- context [fold_right ?f ?a idx] => destruct (fold_right f a idx) as [cs0|] eqn:E0 end; [|discriminate].
    specialize (IH cs0 eq_refl).
    destruct (slot_at d i) as [[nx|nx|nx| |]|] eqn:Es.
    + intros E. injection E as <-. exact IH.
    + destruct (walk_parts fuel d nx) as [ps|] eqn:Ew; [|discriminate]. intros E. injection E as <-.
      constructor; [|exact IH]. right. exists i, nx, ps. repeat split; [exact Es|]. eapply walk_parts_spec. exact Ew.
    + intros E. injection E as <-. exact IH.
    + destruct (memN i (targets d)) eqn:Em; intros E; injection E as <-; [exact IH|].
      constructor; [|exact IH]. left. exists i. repeat split; assumption.
    + intros E. injection E as <-. exact IH.
    + intros E. injection E as <-. exact IH.
Qed.

Lemma chains_spec d cs : chains d = Some cs -> Forall (chain_wf d) cs.
Proof. unfold chains. apply chains_fold_spec. Qed.

Lemma slot_at_in d i s : slot_at d i = Some s -> In i (indices d).
Proof.
  unfold slot_at, indices. destruct (N.eqb_spec i 0) as [|Hi]; [discriminate|]. cbn [orb].
  destruct (filled d <=? i); [discriminate|]. intros H.
  assert (Hl : (N.to_nat (i - 1) < length (slots d))%nat) by (apply nth_error_Some; rewrite H; discriminate).
  apply in_map_iff. exists (N.to_nat (i - 1)). split; [lia|]. apply in_seq. lia.
Qed.

Lemma linkedf_in d i l : linkedf d i l -> forall x, In x l -> In x (indices d).
Proof.
  induction 1 as [|i nx l Hi Hs Hl IH]; intros x Hx; [contradiction|].
  destruct Hx as [<-|Hx]; [eapply slot_at_in; exact Hs|apply IH; exact Hx].
Qed.
Lemma linkedp_in d i l : linkedp d i l -> forall x, In x l -> In x (indices d).
Proof.
  induction 1 as [i Hs|i nx l Hs Hl IH]; intros x Hx.
  - destruct Hx as [<-|[]]. eapply slot_at_in; exact Hs.
  - destruct Hx as [<-|Hx]; [eapply slot_at_in; exact Hs|apply IH; exact Hx].
Qed.
Lemma chain_wf_in d c : chain_wf d c -> forall x, In x c -> In x (indices d).
Proof.
  intros [[i [-> [Hs _]]]|[i [nx [ps [-> [Hs Hl]]]]]] x Hx.
  - destruct Hx as [<-|[]]. eapply slot_at_in; exact Hs.
  - destruct Hx as [<-|Hx]; [eapply slot_at_in; exact Hs|eapply linkedp_in; eassumption].
Qed.

Lemma memN_in x l : memN x l = true <-> In x l.
Proof.
  unfold memN. rewrite existsb_exists. split.
  - intros [y [Hy E]]. apply N.eqb_eq in E. subst. exact Hy.
  - intros H. exists x. split; [exact H|apply N.eqb_refl].
Qed.
Lemma nodupb_spec l : nodupb l = true -> NoDup l.
Proof.
  induction l as [|x l IH]; cbn [nodupb]; intros H; [constructor|].
  apply andb_true_iff in H as [H1 H2]. constructor; [|apply IH; exact H2].
  intros Hin. apply memN_in in Hin. rewrite Hin in H1. discriminate.
Qed.

Lemma NoDup_app_l {A} (a b : list A) : NoDup (a ++ b) -> NoDup a.
Proof.
  induction a as [|x a IH]; cbn [app]; intros H; [constructor|].
  inversion H as [|y l Hn Hd]; subst. constructor; [|apply IH; exact Hd].
  intros Hin. apply Hn. apply in_or_app. left. exact Hin.
Qed.

Theorem check_table_sound d : t_ok (check_table d) = true ->
  let r := check_table d in
  (* every slot below the fill mark is used exactly once *)
  Permutation (t_free r ++ concat (t_chains r)) (indices d) /\
  (* the free list: linked from the header's head, ending in 0, acyclic *)
  linkedf d (free_head d) (t_free r) /\ NoDup (t_free r) /\
  (* every chain is a complete value or head, parts, last part *)
  Forall (chain_wf d) (t_chains r) /\
  (* the fill mark agrees with the number of slots *)
  (filled d = N.of_nat (length (slots d)) + 1 \/ (filled d = 0 /\ slots d = [])).
Proof.
  unfold check_table.
  destruct ((filled d =? N.of_nat (length (slots d)) + 1) || ((filled d =? 0) && (length (slots d) =? 0)%nat)) eqn:Ef; cbn [negb]; [|discriminate].
  destruct (walk_free (S (length (slots d))) d (free_head d)) as [fl|] eqn:Ew; [|discriminate].
  destruct (chains d) as [cs|] eqn:Ec; [|discriminate]. cbn [t_ok t_free t_chains].
  intros H. apply andb_true_iff in H as [Hnd Hlen]. apply Nat.eqb_eq in Hlen. apply nodupb_spec in Hnd.
  pose proof (walk_free_spec _ _ _ _ Ew) as Hlf. pose proof (chains_spec _ _ Ec) as Hcs.
  split; [|split; [exact Hlf|split; [|split; [exact Hcs|]]]].
  - apply NoDup_Permutation_bis; [exact Hnd| |].
    + unfold indices. rewrite map_length, seq_length. lia.
    + intros x Hx. apply in_app_or in Hx as [Hx|Hx]; [eapply linkedf_in; eassumption|].
      apply in_concat in Hx as [c [Hc Hx]]. rewrite Forall_forall in Hcs. eapply chain_wf_in; [apply Hcs; exact Hc|exact Hx].
  - apply NoDup_app_l in Hnd. exact Hnd.
  - apply orb_true_iff in Ef as [E|E]; [left; apply N.eqb_eq; exact E|right].
    apply andb_true_iff in E as [E1 E2]. apply N.eqb_eq in E1. apply Nat.eqb_eq in E2. split; [exact E1|].
    destruct (slots d); [reflexivity|discriminate].
Qed.

(* consequences in the words of the property *)
Corollary no_slot_twice d : t_ok (check_table d) = true ->
  NoDup (t_free (check_table d) ++ concat (t_chains (check_table d))).
Proof.
  intros H. destruct (check_table_sound d H) as [Hp _]. eapply Permutation_NoDup; [apply Permutation_sym; exact Hp|].
  unfold indices. apply FinFun.Injective_map_NoDup; [|apply seq_NoDup]. intros a b E. lia.
Qed.

Corollary every_slot_used d i s : t_ok (check_table d) = true -> slot_at d i = Some s ->
  In i (t_free (check_table d)) \/ exists c, In c (t_chains (check_table d)) /\ In i c.
Proof.
  intros H Hs. destruct (check_table_sound d H) as [Hp _]. apply slot_at_in in Hs.
  apply (Permutation_in _ (Permutation_sym Hp)) in Hs. apply in_app_or in Hs as [Hs|Hs]; [left; exact Hs|right].
  apply in_concat in Hs as [c [Hc Hi]]. exists c. split; assumption.
Qed.
