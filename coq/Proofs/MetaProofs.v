(* Proofs about Model/Meta.v: option text round trip (exhaustive over all 384 option values),
   validation, and disjointness of the per-column file-name prefixes (exhaustive over all pairs
   of columns below 256). The sweeps are evaluated by the kernel (vm_compute) against the
   literals regenerated from the Rust source. *)
From Coq Require Import NArith List Bool Lia.
From PDB Require Import Gen.Consts Model.Meta.
Import ListNotations.
Open Scope N_scope.

Lemma eqb_bool_eq a b : Bool.eqb a b = true -> a = b.
Proof. destruct a, b; cbn; congruence. Qed.

Lemma copt_eqb_eq a b : copt_eqb a b = true -> a = b.
Proof.
  unfold copt_eqb. intros H. repeat (apply andb_true_iff in H as [H ?]).
  destruct a, b; cbn in *.
  repeat match goal with
         | H : Bool.eqb _ _ = true |- _ => apply eqb_bool_eq in H
         | H : (_ =? _) = true |- _ => apply N.eqb_eq in H
         end. subst. reflexivity.
Qed.
Lemma copt_eqb_refl a : copt_eqb a a = true.
Proof. unfold copt_eqb. rewrite !Bool.eqb_reflx, N.eqb_refl. reflexivity. Qed.

Definition bools : list bool := [false; true].
Definition all_opts : list copt :=
  flat_map (fun a => flat_map (fun b => flat_map (fun c => flat_map (fun n =>
  flat_map (fun d => flat_map (fun e => flat_map (fun g => map (fun h =>
    {| o_preimage := a; o_uniform := b; o_refc := c; o_compression := n;
       o_ordered := d; o_multitree := e; o_append_only := g; o_direct := h |})
  bools) bools) bools) bools) [0; 1; 2]) bools) bools) bools.

Lemma in_all_opts o : o_compression o < 3 -> In o all_opts.
Proof.
  intros Hn. assert (E : existsb (copt_eqb o) all_opts = true).
  { destruct o as [a b c n d e g h]; cbn [o_compression] in Hn.
    assert (n = 0 \/ n = 1 \/ n = 2) as [->|[->| ->]] by lia;
    destruct a, b, c, d, e, g, h; vm_compute; reflexivity. }
  apply existsb_exists in E as (x & Hin & Hx). apply copt_eqb_eq in Hx. subst x. exact Hin.
Qed.

Definition roundtrips (o : copt) : bool :=
  match col_from_string (col_as_string o) with POk o' => copt_eqb o o' | _ => false end.

Lemma roundtrip_sweep : forallb roundtrips all_opts = true.
Proof. vm_compute. reflexivity. Qed.

Theorem options_roundtrip o : o_compression o < 3 -> col_from_string (col_as_string o) = POk o.
Proof.
  intros H. pose proof roundtrip_sweep as S. rewrite forallb_forall in S.
  specialize (S o (in_all_opts o H)). unfold roundtrips in S.
  destruct (col_from_string (col_as_string o)) as [o'| |]; try discriminate.
  apply copt_eqb_eq in S. congruence.
Qed.

(* two distinct option values never print the same text (injectivity follows from the round trip) *)
Theorem options_text_injective a b : o_compression a < 3 -> o_compression b < 3 ->
  col_as_string a = col_as_string b -> a = b.
Proof.
  intros Ha Hb E. pose proof (options_roundtrip a Ha) as R1. rewrite E, (options_roundtrip b Hb) in R1. congruence.
Qed.

(* ---- validation ---- *)
Lemma cols_eqb_eq a : forall b, cols_eqb a b = true <-> a = b.
Proof.
  induction a as [|x a IH]; intros [|y b]; cbn [cols_eqb]; split; try discriminate; try reflexivity.
  - intros H. apply andb_true_iff in H as [H1 H2]. apply copt_eqb_eq in H1. apply IH in H2. congruence.
  - intros H. injection H as -> ->. rewrite copt_eqb_refl. apply IH. reflexivity.
Qed.

Theorem validate_iff stored requested : validate stored requested = 0 <-> stored = requested.
Proof.
  unfold validate. destruct (N.eqb_spec (N.of_nat (length stored)) (N.of_nat (length requested))) as [E|E]; cbn [negb].
  - destruct (cols_eqb stored requested) eqn:C.
    + split; [intros _; apply cols_eqb_eq; exact C|reflexivity].
    + split; [discriminate|]. intros ->. rewrite (proj2 (cols_eqb_eq requested requested) eq_refl) in C. discriminate.
  - split; [discriminate|]. intros ->. contradiction E. reflexivity.
Qed.

Theorem validate_classes stored requested :
  validate stored requested = 0 \/
  (validate stored requested = 2 /\ length stored <> length requested) \/
  (validate stored requested = 6 /\ length stored = length requested /\ stored <> requested).
Proof.
  unfold validate. destruct (N.eqb_spec (N.of_nat (length stored)) (N.of_nat (length requested))) as [E|E]; cbn [negb].
  - destruct (cols_eqb stored requested) eqn:C; [left; reflexivity|]. right; right.
    split; [reflexivity|]. split; [lia|]. intros ->. rewrite (proj2 (cols_eqb_eq requested requested) eq_refl) in C. discriminate.
  - right; left. split; [reflexivity|]. intros H. apply E. rewrite H. reflexivity.
Qed.

(* ---- file-name prefixes ---- *)
Fixpoint diverge (a b : str) : bool :=
  match a, b with
  | x :: a', y :: b' => negb (x =? y) || diverge a' b'
  | _, _ => false
  end.

Lemma diverge_no_prefix a : forall b rest, diverge a b = true -> starts_with a (b ++ rest) = false.
Proof.
  induction a as [|x a IH]; intros [|y b] rest H; cbn in *; try discriminate.
  destruct (x =? y); cbn in *; [apply IH; exact H|reflexivity].
Qed.

Fixpoint upto (n : nat) : list N := match n with O => [] | S k => upto k ++ [N.of_nat k] end.
Lemma in_upto n x : x < N.of_nat n -> In x (upto n).
Proof.
  induction n as [|k IH]; intros H; [lia|]. cbn [upto]. apply in_or_app.
  destruct (N.eq_dec x (N.of_nat k)) as [->|Hne]; [right; left; reflexivity|left; apply IH; lia].
Qed.

Definition pair_ok (c c' : N) : bool :=
  (c =? c') || forallb (fun k => forallb (fun k' => diverge (col_prefix k c) (col_prefix k' c')) kinds) kinds.

Lemma prefix_sweep : forallb (fun c => forallb (pair_ok c) (upto 256)) (upto 256) = true.
Proof. vm_compute. reflexivity. Qed.

Theorem prefixes_disjoint c c' kind' rest :
  c < 256 -> c' < 256 -> c <> c' -> In kind' kinds ->
  is_col_file c (col_prefix kind' c' ++ rest) = false.
Proof.
  intros Hc Hc' Hne Hk. pose proof prefix_sweep as S. rewrite forallb_forall in S.
  specialize (S c (in_upto 256 c Hc)). rewrite forallb_forall in S. specialize (S c' (in_upto 256 c' Hc')).
  unfold pair_ok in S. apply orb_true_iff in S as [S|S]; [apply N.eqb_eq in S; contradiction|].
  rewrite forallb_forall in S. unfold is_col_file.
  apply not_true_is_false. intros E. apply existsb_exists in E as (k & Hkin & Hst).
  specialize (S k Hkin). rewrite forallb_forall in S. specialize (S kind' Hk).
  rewrite (diverge_no_prefix _ _ rest S) in Hst. discriminate.
Qed.

Lemma starts_with_split p : forall s, starts_with p s = true -> exists rest, s = p ++ rest.
Proof.
  induction p as [|x p IH]; intros s H; cbn in H; [exists s; reflexivity|].
  destruct s as [|y s]; [discriminate|]. apply andb_true_iff in H as [H1 H2]. apply N.eqb_eq in H1. subst y.
  destruct (IH s H2) as [rest ->]. exists rest. reflexivity.
Qed.

(* dropping the files of column c leaves the files of every other column untouched *)
Theorem drop_files_frame c c' (d : dir) : c < 256 -> c' < 256 -> c <> c' ->
  files_of c' (drop_files c d) = files_of c' d.
Proof.
  intros Hc Hc' Hne. unfold files_of, drop_files. induction d as [|[name content] d IH]; cbn [filter fst]; [reflexivity|].
  destruct (is_col_file c' name) eqn:E'.
  - assert (Hno : is_col_file c name = false).
    { unfold is_col_file in E'. apply existsb_exists in E' as (k' & Hk' & Hst).
      destruct (starts_with_split _ _ Hst) as [rest ->]. apply prefixes_disjoint; assumption. }
    rewrite Hno. cbn [negb filter fst]. rewrite E'. f_equal. exact IH.
  - destruct (is_col_file c name); cbn [negb filter fst]; [exact IH|]. rewrite E'. exact IH.
Qed.

Theorem drop_files_empties c (d : dir) : files_of c (drop_files c d) = [].
Proof.
  unfold files_of, drop_files. induction d as [|[name content] d IH]; cbn [filter fst]; [reflexivity|].
  destruct (is_col_file c name) eqn:E; cbn [negb filter fst]; [exact IH|]. rewrite E. exact IH.
Qed.

(* metadata, lock and log files are never column files *)
Theorem non_column_files c name ch rest : name = ch :: rest -> ch = 109 \/ ch = 108 ->
  is_col_file c name = false.
Proof.
  intros -> [->| ->]; unfold is_col_file, kinds, col_prefix, file_prefix_index, file_prefix_table, file_prefix_refcount; cbn; reflexivity.
Qed.
