(* C10, read-back: a tree committed with InsertTree is, from the moment commit_changes returns (through
   the commit overlay) and after process_commits has written it (through the stored nodes), exactly
   the tree that was supplied: the root carries the supplied data, and child by child a new child is a
   node carrying that subtree, an existing child is the address that was named. *)
From Coq Require Import NArith List Bool Lia.
From PDB Require Import Model.MultiTree Proofs.MultiTreeProofs.
Import ListNotations.
Open Scope N_scope.

(* ---- induction over trees (children are a list) ---- *)
Lemma tree_ind2 (P : tree -> Prop)
  (H : forall d cs, (forall t', In (TNew t') cs -> P t') -> P (TNode d cs)) : forall t, P t.
Proof.
  fix IH 1. intros [d cs]. apply H.
  revert cs. fix IHcs 1. intros [|c r] t' Hin.
  - destruct Hin.
  - destruct Hin as [E|Hin].
    + destruct c as [t0|i]; [injection E as <-; apply IH|discriminate].
    + apply (IHcs r t' Hin).
Qed.

(* ---- the specification of "node id carries tree t" ---- *)
Inductive carries (g : nid -> option node) : nid -> tree -> Prop :=
| carries_node id d cs ids :
    g id = Some {| n_data := d; n_children := ids |} -> Forall2 (child_is g) cs ids -> carries g id (TNode d cs)
with child_is (g : nid -> option node) : tchild -> nid -> Prop :=
| child_new t id : carries g id t -> child_is g (TNew t) id
| child_existing id : child_is g (TExisting id) id.

Definition root_is (g : nid -> option node) (r : option node) (t : tree) : Prop :=
  match t with TNode d cs => exists ids, r = Some {| n_data := d; n_children := ids |} /\ Forall2 (child_is g) cs ids end.

(* ---- claim_tree with its inner loop named ---- *)
Section ClaimChildren.
Variable rec : tree -> nid -> nid * (nid * list mitem).
Variable append_only : bool.
Fixpoint claim_children (cs : list tchild) (nx : nid) : list nid * (nid * list mitem) :=
  match cs with
  | [] => ([], (nx, []))
  | TNew t' :: rest =>
      let '(i, (nx1, it1)) := rec t' nx in
      let '(is, (nx2, it2)) := claim_children rest nx1 in (i :: is, (nx2, it1 ++ it2))
  | TExisting i :: rest =>
      let '(is, (nx2, it2)) := claim_children rest nx in
      (i :: is, (nx2, (if append_only then [] else [MIncRef i]) ++ it2))
  end.
End ClaimChildren.

Lemma claim_tree_eq ao d cs next :
  claim_tree ao (TNode d cs) next =
  let '(ids, (next', items)) := claim_children (claim_tree ao) ao cs (next + 1) in
  (next, (next', items ++ [MNewValue next {| n_data := d; n_children := ids |}])).
Proof. reflexivity. Qed.

Lemma claim_root_eq ao d cs next :
  claim_root ao (TNode d cs) next =
  let '(ids, (next', items)) := claim_children (claim_tree ao) ao cs next in
  ({| n_data := d; n_children := ids |}, (next', items)).
Proof. reflexivity. Qed.

(* the new nodes an item list carries *)
Definition nv (items : list mitem) : list (nid * node) :=
  flat_map (fun it => match it with MNewValue id n => [(id, n)] | _ => [] end) items.
Lemma nv_app a b : nv (a ++ b) = nv a ++ nv b. Proof. apply flat_map_app. Qed.

Definition g_of (m : list (nid * node)) : nid -> option node := alook m.

Lemma alook_app_l {A} (a b : list (N * A)) k v : alook a k = Some v -> alook (a ++ b) k = Some v.
Proof. induction a as [|[k' x] a IH]; cbn; [discriminate|]. destruct (k' =? k); [trivial|exact IH]. Qed.
Lemma alook_app_r {A} (a b : list (N * A)) k : (forall x, ~ In (k, x) a) -> alook (a ++ b) k = alook b k.
Proof.
  induction a as [|[k' x] a IH]; intros H; cbn; [reflexivity|]. destruct (N.eqb_spec k' k) as [->|].
  - exfalso. apply (H x). left. reflexivity.
  - apply IH. intros y Hy. apply (H y). right. exact Hy.
Qed.
Lemma alook_in {A} (m : list (N * A)) k v : alook m k = Some v -> In (k, v) m.
Proof. induction m as [|[k' x] m IH]; cbn; [discriminate|]. destruct (N.eqb_spec k' k) as [->|]; [intros E; injection E as ->; left; reflexivity|intros H; right; apply IH; exact H]. Qed.
Lemma in_alook {A} (m : list (N * A)) k v : NoDup (map fst m) -> In (k, v) m -> alook m k = Some v.
Proof.
  induction m as [|[k' x] m IH]; intros Hnd Hin; [destruct Hin|]. cbn. inversion Hnd as [|a l Hn Hd]; subst. destruct Hin as [E|Hin].
  - injection E as -> ->. rewrite N.eqb_refl. reflexivity.
  - destruct (N.eqb_spec k' k) as [->|]; [exfalso; apply Hn; apply in_map_iff; exists (k, v); split; [reflexivity|exact Hin]|apply IH; assumption].
Qed.

(* carries / child_is only depend on the nodes they visit: monotone in the lookup *)
Lemma carries_mono (g g' : nid -> option node) : (forall id n, g id = Some n -> g' id = Some n) ->
  forall t id, carries g id t -> carries g' id t.
Proof.
  intros Hg t. induction t as [d cs IH] using tree_ind2. intros id H. inversion H as [id0 d0 cs0 ids Hn Hc]; subst.
  econstructor; [apply Hg; exact Hn|].
  clear Hn H. induction Hc as [|c i cs' ids' Hci Hrest IHc]; [constructor|]. constructor.
  - inversion Hci as [t' i' Hcar|i']; subst; [constructor; apply (IH t'); [left; reflexivity|exact Hcar]|constructor].
  - apply IHc. intros t' Hin. apply IH. right. exact Hin.
Qed.
Lemma child_is_mono (g g' : nid -> option node) : (forall id n, g id = Some n -> g' id = Some n) ->
  forall c i, child_is g c i -> child_is g' c i.
Proof. intros Hg c i H. inversion H; subst; [constructor; eapply carries_mono; eassumption|constructor]. Qed.

(* ---- what claim_tree / claim_children produce ---- *)
Definition in_range (lo hi : nid) (m : list (nid * node)) : Prop := Forall (fun e => lo <= fst e < hi) m.

Lemma in_range_weaken lo hi lo' hi' m : lo' <= lo -> hi <= hi' -> in_range lo hi m -> in_range lo' hi' m.
Proof. intros H1 H2 H. unfold in_range in *. rewrite Forall_forall in *. intros e He. specialize (H e He). lia. Qed.

Lemma nodup_app_ranges lo mid hi (a b : list (nid * node)) :
  NoDup (map fst a) -> NoDup (map fst b) -> in_range lo mid a -> in_range mid hi b -> NoDup (map fst (a ++ b)).
Proof.
  intros Ha Hb Ra Rb. rewrite map_app. induction a as [|[k x] a IH]; [exact Hb|]. cbn [map fst app].
  inversion Ha as [|y l Hn Hd]; subst. inversion Ra as [|y l Hk Hr]; subst. constructor; [|apply IH; assumption].
  intros Hin. apply in_app_or in Hin as [Hin|Hin]; [apply Hn; exact Hin|].
  apply in_map_iff in Hin as [[k' x'] [E Hin]]. cbn in E. subst k'. unfold in_range in Rb. rewrite Forall_forall in Rb. specialize (Rb _ Hin). cbn in *. lia.
Qed.

Definition tree_claim_ok (ao : bool) (t : tree) : Prop :=
  forall nx own nx' items, claim_tree ao t nx = (own, (nx', items)) ->
    own = nx /\ nx < nx' /\ in_range nx nx' (nv items) /\ NoDup (map fst (nv items)) /\ carries (g_of (nv items)) own t.

Lemma claim_children_ok ao cs : (forall t', In (TNew t') cs -> tree_claim_ok ao t') ->
  forall nx ids nx' items, claim_children (claim_tree ao) ao cs nx = (ids, (nx', items)) ->
    nx <= nx' /\ in_range nx nx' (nv items) /\ NoDup (map fst (nv items)) /\ Forall2 (child_is (g_of (nv items))) cs ids.
Proof.
  induction cs as [|c rest IH]; intros Hok nx ids nx' items E; cbn [claim_children] in E.
  - injection E as <- <- <-. cbn. repeat split; try lia; constructor.
  - destruct c as [t'|i].
    + destruct (claim_tree ao t' nx) as [i1 [nx1 it1]] eqn:E1.
      destruct (claim_children (claim_tree ao) ao rest nx1) as [is [nx2 it2]] eqn:E2.
      injection E as <- <- <-.
      destruct (Hok t' (or_introl eq_refl) nx i1 nx1 it1 E1) as (-> & Hlt & Hr1 & Hn1 & Hc1).
      destruct (IH (fun t0 H => Hok t0 (or_intror H)) nx1 is nx2 it2 E2) as (Hle & Hr2 & Hn2 & Hc2).
      rewrite nv_app.
      assert (Hnd : NoDup (map fst (nv it1 ++ nv it2))) by (eapply nodup_app_ranges; eassumption).
      split; [lia|]. split; [|split; [exact Hnd|]].
      * unfold in_range. apply Forall_app. split; [eapply in_range_weaken; [| |exact Hr1]; lia|eapply in_range_weaken; [| |exact Hr2]; lia].
      * constructor.
        -- constructor. eapply carries_mono; [|exact Hc1]. intros id n Hg. unfold g_of in *. apply alook_app_l. exact Hg.
        -- clear - Hc2 Hnd. induction Hc2 as [|c i cs' ids' Hci Hrest IHc]; [constructor|]. constructor; [|exact IHc].
           eapply child_is_mono; [|exact Hci]. intros id n Hg. unfold g_of in *. apply in_alook; [exact Hnd|]. apply in_or_app. right. apply alook_in. exact Hg.
    + destruct (claim_children (claim_tree ao) ao rest nx) as [is [nx2 it2]] eqn:E2.
      injection E as <- <- <-.
      destruct (IH (fun t0 H => Hok t0 (or_intror H)) nx is nx2 it2 E2) as (Hle & Hr2 & Hn2 & Hc2).
      assert (Env : nv ((if ao then [] else [MIncRef i]) ++ it2) = nv it2) by (destruct ao; reflexivity).
      rewrite Env. repeat split; try assumption. constructor; [constructor|exact Hc2].
Qed.

Lemma nodup_snoc {A} (l : list A) x : NoDup l -> ~ In x l -> NoDup (l ++ [x]).
Proof.
  induction l as [|a l IH]; intros Hn Hx; cbn [app]; [constructor; [intros []|constructor]|].
  inversion Hn as [|y l' Hy Hl]; subst. constructor.
  - intros Hin. apply in_app_or in Hin as [Hin|[E|[]]]; [apply Hy; exact Hin|]. subst. apply Hx. left. reflexivity.
  - apply IH; [exact Hl|]. intros H. apply Hx. right. exact H.
Qed.

Lemma claim_tree_ok ao t : tree_claim_ok ao t.
Proof.
  induction t as [d cs IH] using tree_ind2. intros nx own nx' items E. rewrite claim_tree_eq in E.
  destruct (claim_children (claim_tree ao) ao cs (nx + 1)) as [ids [next' its]] eqn:Ec.
  injection E as <- <- <-.
  destruct (claim_children_ok ao cs IH (nx + 1) ids next' its Ec) as (Hle & Hr & Hn & Hc).
  rewrite nv_app. cbn [nv flat_map app].
  assert (Hfresh : forall x, ~ In (nx, x) (nv its)).
  { intros x Hin. unfold in_range in Hr. rewrite Forall_forall in Hr. specialize (Hr _ Hin). cbn in Hr. lia. }
  assert (Hnd : NoDup (map fst (nv its ++ [(nx, {| n_data := d; n_children := ids |})]))).
  { rewrite map_app. cbn [map fst]. apply nodup_snoc; [exact Hn|]. intros Hin. apply in_map_iff in Hin as [[k x] [Ek Hin]]. cbn in Ek. subst k. apply (Hfresh x Hin). }
  split; [reflexivity|]. split; [lia|]. split; [|split; [exact Hnd|]].
  - unfold in_range. apply Forall_app. split; [eapply in_range_weaken; [| |exact Hr]; lia|constructor; [cbn; lia|constructor]].
  - econstructor.
    + unfold g_of. rewrite alook_app_r by exact Hfresh. cbn. rewrite N.eqb_refl. reflexivity.
    + remember [(nx, {| n_data := d; n_children := ids |})] as extra eqn:Ex. clear - Hc.
      induction Hc as [|c i cs' ids' Hci Hrest IHc]; [constructor|]. constructor; [|exact IHc].
      eapply child_is_mono; [|exact Hci]. intros id n Hg. unfold g_of in *. apply alook_app_l. exact Hg.
Qed.

(* ---- the items of an insertion only add nodes and counts ---- *)
Definition node_item (it : mitem) : Prop := match it with MNewValue _ _ | MIncRef _ => True | _ => False end.

Lemma claim_children_kind ao cs : (forall t', In (TNew t') cs -> forall nx own nx' items, claim_tree ao t' nx = (own, (nx', items)) -> Forall node_item items) ->
  forall nx ids nx' items, claim_children (claim_tree ao) ao cs nx = (ids, (nx', items)) -> Forall node_item items.
Proof.
  induction cs as [|c rest IH]; intros Hok nx ids nx' items E; cbn [claim_children] in E.
  - injection E as <- <- <-. constructor.
  - destruct c as [t'|i].
    + destruct (claim_tree ao t' nx) as [i1 [nx1 it1]] eqn:E1.
      destruct (claim_children (claim_tree ao) ao rest nx1) as [is [nx2 it2]] eqn:E2. injection E as <- <- <-.
      apply Forall_app. split; [eapply Hok; [left; reflexivity|exact E1]|eapply IH; [|exact E2]]. intros t0 H. apply Hok. right. exact H.
    + destruct (claim_children (claim_tree ao) ao rest nx) as [is [nx2 it2]] eqn:E2. injection E as <- <- <-.
      apply Forall_app. split; [destruct ao; [constructor|constructor; [exact I|constructor]]|eapply IH; [|exact E2]]. intros t0 H. apply Hok. right. exact H.
Qed.
Lemma claim_tree_kind ao t : forall nx own nx' items, claim_tree ao t nx = (own, (nx', items)) -> Forall node_item items.
Proof.
  induction t as [d cs IH] using tree_ind2. intros nx own nx' items E. rewrite claim_tree_eq in E.
  destruct (claim_children (claim_tree ao) ao cs (nx + 1)) as [ids [next' its]] eqn:Ec. injection E as <- <- <-.
  apply Forall_app. split; [eapply claim_children_kind; [exact IH|exact Ec]|constructor; [exact I|constructor]].
Qed.

(* ---- the commit overlay after copy_to_overlay ---- *)
Lemma alook_aput_eq {A} (m : list (N * A)) k a : alook (aput m k a) k = Some a.
Proof. unfold aput. cbn. rewrite N.eqb_refl. reflexivity. Qed.
Lemma alook_adel_neq {A} (m : list (N * A)) k j : j <> k -> alook (adel m k) j = alook m j.
Proof.
  intros Hne. unfold adel. induction m as [|[k' x] m IH]; [reflexivity|]. cbn [filter fst].
  destruct (N.eqb_spec k' k) as [->|]; cbn [negb].
  - cbn [alook]. destruct (N.eqb_spec k j); [congruence|exact IH].
  - cbn [alook]. destruct (k' =? j); [reflexivity|exact IH].
Qed.
Lemma alook_aput_neq {A} (m : list (N * A)) k j a : j <> k -> alook (aput m k a) j = alook m j.
Proof. intros Hne. unfold aput. cbn [alook]. destruct (N.eqb_spec k j); [congruence|]. apply alook_adel_neq. exact Hne. Qed.

Lemma to_overlay_aov_other cf cid items : forall s id, (forall n, ~ In (id, n) (nv items)) ->
  alook (aov (to_overlay cf cid items s)) id = alook (aov s) id.
Proof.
  induction items as [|it items IH]; intros s id Hni; [reflexivity|]. cbn [to_overlay].
  assert (Hni' : forall n, ~ In (id, n) (nv items)).
  { intros n H. apply (Hni n). change (it :: items) with ([it] ++ items). rewrite nv_app. apply in_or_app. right. exact H. }
  rewrite IH by exact Hni'. destruct it; cbn [aov]; try reflexivity.
  apply alook_aput_neq. intros ->. apply (Hni n). cbn. left. reflexivity.
Qed.

Lemma to_overlay_aov cf cid items : forall s id n, NoDup (map fst (nv items)) -> In (id, n) (nv items) ->
  alook (aov (to_overlay cf cid items s)) id = Some (cid, n).
Proof.
  induction items as [|it items IH]; intros s id n Hnd Hin; [destruct Hin|]. cbn [to_overlay].
  change (it :: items) with ([it] ++ items) in Hnd, Hin. rewrite nv_app in Hnd, Hin. rewrite map_app in Hnd.
  destruct it as [k0 n0|k0|id0 n0|id0|k0 c0|k0 v0|k0]; cbn [nv flat_map app map] in Hnd, Hin; try (apply IH; assumption).
  destruct Hin as [E|Hin].
  - injection E as -> ->. rewrite to_overlay_aov_other; [cbn [aov]; apply alook_aput_eq|].
    intros n' Hn'. inversion Hnd as [|x l Hx _]; subst. apply Hx. apply in_map_iff. exists (id, n'). split; [reflexivity|exact Hn'].
  - apply IH; [inversion Hnd; assumption|exact Hin].
Qed.

Lemma to_overlay_rov_nodes cf cid items : Forall node_item items -> forall s, rov (to_overlay cf cid items s) = rov s.
Proof.
  induction 1 as [|it items Hit _ IH]; intros s; [reflexivity|]. cbn [to_overlay]. rewrite IH. destruct it; try contradiction; reflexivity.
Qed.

(* ---- InsertTree: what the reader sees as soon as commit_changes has returned ---- *)
Theorem insert_readback_commit cf s k t s' code :
  max_fanout t <= 255 -> mcommit_tx cf s [UInsertTree k t] = (s', code) ->
  code = 0 /\ root_is (get_node s') (get_root s' k) t.
Proof.
  intros Hfan. unfold mcommit_tx. cbn [prepare static_code static_ref_code existsb].
  destruct (N.ltb_spec 255 (max_fanout t)) as [H|_]; [lia|]. cbn [N.eqb negb].
  destruct t as [d cs]. rewrite claim_root_eq.
  destruct (claim_children (claim_tree (m_append_only cf)) (m_append_only cf) cs (next_id s)) as [ids [next' items]] eqn:Ec.
  cbn [prepare N.eqb negb p_roots existsb orb items_of p_kv p_nodes p_check p_used app].
  intros E. injection E as <- <-. split; [reflexivity|].
  destruct (claim_children_ok (m_append_only cf) cs (fun t' _ => claim_tree_ok _ t') _ _ _ _ Ec) as (_ & _ & Hnd & Hc).
  pose proof (claim_children_kind (m_append_only cf) cs (fun t' _ => claim_tree_kind _ t') _ _ _ _ Ec) as Hk.
  cbn [root_is]. exists ids. split.
  - unfold get_root. cbn [rov to_overlay]. rewrite (to_overlay_rov_nodes cf _ items Hk). cbn [rov]. rewrite alook_aput_eq. reflexivity.
  - match goal with |- Forall2 (child_is (get_node ?S)) _ _ => remember S as S' eqn:ES end.
    assert (Hmono : forall id n, g_of (nv items) id = Some n -> get_node S' id = Some n).
    { intros id n Hg. unfold g_of in Hg. subst S'. unfold get_node. cbn [aov to_overlay].
      rewrite (to_overlay_aov cf _ items _ id n Hnd (alook_in _ _ _ Hg)). reflexivity. }
    clear - Hc Hmono. induction Hc as [|c i cs' ids' Hci Hrest IHc]; [constructor|]. constructor; [|exact IHc].
    eapply child_is_mono; [exact Hmono|exact Hci].
Qed.

(* ---- after process_commits: the same tree, now read from the stored nodes ---- *)
Lemma alook_adel_eq {A} (m : list (N * A)) k : alook (adel m k) k = None.
Proof.
  unfold adel. induction m as [|[k' x] m IH]; [reflexivity|]. cbn [filter fst].
  destruct (N.eqb_spec k' k) as [->|Hne]; cbn [negb]; [exact IH|]. cbn [alook]. destruct (N.eqb_spec k' k); [contradiction|exact IH].
Qed.

Lemma apply_nodes_other cf fuel items : Forall node_item items -> forall s id, (forall n, ~ In (id, n) (nv items)) ->
  alook (nodes (fold_left (apply_item cf fuel) items s)) id = alook (nodes s) id.
Proof.
  induction 1 as [|it items Hit _ IH]; intros s id Hni; [reflexivity|]. cbn [fold_left].
  assert (Hni' : forall n, ~ In (id, n) (nv items)).
  { intros n H. apply (Hni n). change (it :: items) with ([it] ++ items). rewrite nv_app. apply in_or_app. right. exact H. }
  rewrite IH by exact Hni'. destruct it; try contradiction; cbn [apply_item].
  - cbn [nodes set_store]. apply alook_aput_neq. intros ->. apply (Hni n). cbn. left. reflexivity.
  - destruct (alook (nrc s) id0); reflexivity.
Qed.

Lemma apply_nodes cf fuel items : Forall node_item items -> forall s id n, NoDup (map fst (nv items)) -> In (id, n) (nv items) ->
  alook (nodes (fold_left (apply_item cf fuel) items s)) id = Some n.
Proof.
  induction 1 as [|it items Hit Hrest IH]; intros s id n Hnd Hin; [destruct Hin|]. cbn [fold_left].
  change (it :: items) with ([it] ++ items) in Hnd, Hin. rewrite nv_app in Hnd, Hin. rewrite map_app in Hnd.
  destruct it as [k0 n0|k0|id0 n0|id0|k0 c0|k0 v0|k0]; try contradiction; cbn [nv flat_map app map] in Hnd, Hin.
  - destruct Hin as [E|Hin].
    + injection E as -> ->. rewrite apply_nodes_other; [cbn [apply_item nodes set_store]; apply alook_aput_eq|exact Hrest|].
      intros n' Hn'. inversion Hnd as [|x l Hx _]; subst. apply Hx. apply in_map_iff. exists (id, n'). split; [reflexivity|exact Hn'].
    + apply IH; [inversion Hnd; assumption|exact Hin].
  - apply IH; assumption.
Qed.

Lemma apply_roots_nodes cf fuel items : Forall node_item items -> forall s, roots (fold_left (apply_item cf fuel) items s) = roots s.
Proof.
  induction 1 as [|it items Hit _ IH]; intros s; [reflexivity|]. cbn [fold_left]. rewrite IH.
  destruct it; try contradiction; cbn [apply_item]; [reflexivity|destruct (alook (nrc s) id); reflexivity].
Qed.

Lemma clean_ov_aov_gone cid items : forall s id n, In (id, n) (nv items) ->
  (forall id' n', In (id', n') (nv items) -> exists x, alook (aov s) id' = Some (cid, x)) ->
  NoDup (map fst (nv items)) ->
  alook (aov (clean_ov cid items s)) id = None.
Proof.
  induction items as [|it items IH]; intros s id n Hin Hall Hnd; [destruct Hin|]. cbn [clean_ov].
  change (it :: items) with ([it] ++ items) in Hnd, Hin, Hall. rewrite nv_app in Hnd, Hin. rewrite map_app in Hnd.
  assert (Hother : forall s0 id0, (forall n0, ~ In (id0, n0) (nv items)) -> alook (aov (clean_ov cid items s0)) id0 = alook (aov s0) id0).
  { clear. induction items as [|it items IH]; intros s0 id0 Hni; [reflexivity|]. cbn [clean_ov].
    assert (Hni' : forall n0, ~ In (id0, n0) (nv items)).
    { intros n0 H. apply (Hni n0). change (it :: items) with ([it] ++ items). rewrite nv_app. apply in_or_app. right. exact H. }
    rewrite IH by exact Hni'. destruct it; cbn [aov]; try reflexivity.
    unfold drop_tag. destruct (alook (aov s0) id) as [[i x]|]; [|reflexivity]. destruct (i =? cid); [|reflexivity].
    apply alook_adel_neq. intros ->. apply (Hni n). cbn. left. reflexivity. }
  destruct it as [k0 n0|k0|id0 n0|id0|k0 c0|k0 v0|k0]; cbn [nv flat_map app map] in Hnd, Hin;
    try (apply (IH _ id n Hin); [intros id' n' H'; apply (Hall id' n'); rewrite nv_app; cbn [nv flat_map app]; exact H'|exact Hnd]).
  destruct Hin as [E|Hin].
  - injection E as -> ->. rewrite Hother.
    + cbn [aov]. unfold drop_tag. destruct (Hall id n) as [x Hx]; [rewrite nv_app; cbn; left; reflexivity|]. rewrite Hx, N.eqb_refl. apply alook_adel_eq.
    + intros n' Hn'. inversion Hnd as [|y l Hy _]; subst. apply Hy. apply in_map_iff. exists (id, n'). split; [reflexivity|exact Hn'].
  - apply (IH _ id n Hin); [|inversion Hnd; assumption].
    intros id' n' H'. destruct (Hall id' n') as [x Hx]; [rewrite nv_app; cbn; right; exact H'|].
    exists x. cbn [aov]. unfold drop_tag. destruct (alook (aov s) id0) as [[i y]|] eqn:E0; [|exact Hx]. destruct (i =? cid); [|exact Hx].
    rewrite alook_adel_neq; [exact Hx|]. intros ->. inversion Hnd as [|y0 l Hy _]; subst. apply Hy. apply in_map_iff. exists (id0, n'). split; [reflexivity|exact H'].
Qed.

Lemma clean_ov_rov_nodes cid items : Forall node_item items -> forall s, rov (clean_ov cid items s) = rov s.
Proof.
  induction 1 as [|it items Hit _ IH]; intros s; [reflexivity|]. cbn [clean_ov]. rewrite IH. destruct it; try contradiction; reflexivity.
Qed.

Lemma to_overlay_queue cf cid items : forall s, mqueue (to_overlay cf cid items s) = mqueue s.
Proof. induction items as [|it items IH]; intros s; [reflexivity|]. cbn [to_overlay]. rewrite IH. destruct it; reflexivity. Qed.

Lemma mprocess_single cf S c : mqueue S = [c] -> mc_check c = false ->
  exists fuel, mprocess cf S = clean_ov (mc_id c) (mc_items c) (fold_left (apply_item cf fuel) (mc_items c) (with_queue S [])).
Proof.
  intros Hq Hc. unfold mprocess. rewrite Hq. unfold must_defer. rewrite Hc. cbn [andb]. eexists. reflexivity.
Qed.

Lemma clean_ov_queue cid items : forall s, mqueue (clean_ov cid items s) = mqueue s.
Proof. induction items as [|it items IH]; intros s; [reflexivity|]. cbn [clean_ov]. rewrite IH. destruct it; reflexivity. Qed.
Lemma apply_queue cf fuel it s : mqueue (apply_item cf fuel s it) = mqueue s.
Proof.
  destruct it; cbn [apply_item]; try reflexivity.
  - destruct (alook (roots s) k) as [[n0 c]|]; [destruct (m_rc cf)|]; reflexivity.
  - destruct (alook (roots s) k) as [[n0 c]|]; [destruct (m_rc cf)|]; reflexivity.
  - destruct (alook (nrc s) id); reflexivity.
  - destruct (alook (roots s) k) as [[n0 c]|]; [|reflexivity]. destruct (m_rc cf && (1 <? c)); [reflexivity|].
    assert (G : forall f s1 ch, mqueue (deref_children f s1 ch) = mqueue s1).
    { induction f as [|f IHf]; intros s1 ch; [reflexivity|]. destruct ch as [|id rest]; [reflexivity|]. cbn [deref_children].
      rewrite IHf. destruct (alook (nrc s1) id) as [c0|]; [destruct (2 <? c0); reflexivity|].
      destruct (get_node s1 id); [rewrite IHf|]; reflexivity. }
    rewrite G. reflexivity.
Qed.
Lemma fold_apply_queue cf fuel items : forall s, mqueue (fold_left (apply_item cf fuel) items s) = mqueue s.
Proof. induction items as [|it items IH]; intros s; [reflexivity|]. cbn [fold_left]. rewrite IH. apply apply_queue. Qed.

Lemma fold_apply_aov cf fuel items : Forall node_item items -> forall s, aov (fold_left (apply_item cf fuel) items s) = aov s.
Proof.
  induction 1 as [|it items Hit _ IH]; intros s; [reflexivity|]. cbn [fold_left]. rewrite IH.
  destruct it; try contradiction; cbn [apply_item]; [reflexivity|destruct (alook (nrc s) id); reflexivity].
Qed.
Lemma fold_apply_rov cf fuel items : Forall node_item items -> forall s, rov (fold_left (apply_item cf fuel) items s) = rov s.
Proof.
  induction 1 as [|it items Hit _ IH]; intros s; [reflexivity|]. cbn [fold_left]. rewrite IH.
  destruct it; try contradiction; cbn [apply_item]; [reflexivity|destruct (alook (nrc s) id); reflexivity].
Qed.

Theorem insert_readback_processed cf s k t s' code :
  max_fanout t <= 255 -> mqueue s = [] -> alook (roots s) k = None ->
  mcommit_tx cf s [UInsertTree k t] = (s', code) ->
  let s'' := mprocess cf s' in
  mqueue s'' = [] /\ root_is (get_node s'') (get_root s'' k) t.
Proof.
  intros Hfan Hq Hk. unfold mcommit_tx. cbn [prepare static_code static_ref_code existsb].
  destruct (N.ltb_spec 255 (max_fanout t)) as [H|_]; [lia|]. cbn [N.eqb negb].
  destruct t as [d cs]. rewrite claim_root_eq.
  destruct (claim_children (claim_tree (m_append_only cf)) (m_append_only cf) cs (next_id s)) as [ids [next' items]] eqn:Ec.
  cbn [prepare N.eqb negb p_roots existsb orb items_of p_kv p_nodes p_check p_used app].
  intros E. injection E as <- <-.
  destruct (claim_children_ok (m_append_only cf) cs (fun t' _ => claim_tree_ok _ t') _ _ _ _ Ec) as (_ & _ & Hnd & Hc).
  pose proof (claim_children_kind (m_append_only cf) cs (fun t' _ => claim_tree_kind _ t') _ _ _ _ Ec) as Hkind.
  set (cid := mcid s + 1). set (root := {| n_data := d; n_children := ids |}).
  cbn [to_overlay].
  set (base := {| roots := roots s; nodes := nodes s; nrc := nrc s; kv := kv s; rov := aput (rov s) k (cid, Some root); aov := aov s; kvov := kvov s;
                  mqueue := mqueue s; mcid := mcid s; next_id := next'; locked := locked s; readers := readers s; to_deref := to_deref s |}).
  set (T := to_overlay cf cid items base).
  assert (HTq : mqueue T = []) by (unfold T; rewrite to_overlay_queue; exact Hq).
  rewrite HTq. cbn [app].
  set (c := {| mc_id := cid; mc_first := cid; mc_items := MRootSet k root :: items; mc_check := false; mc_used := locked_pending s |}).
  set (S := {| roots := roots T; nodes := nodes T; nrc := nrc T; kv := kv T; rov := rov T; aov := aov T; kvov := kvov T;
               mqueue := [c]; mcid := cid; next_id := next_id T; locked := locked T; readers := readers T; to_deref := to_deref T |}).
  destruct (mprocess_single cf S c eq_refl eq_refl) as [fuel Hm]. cbn zeta. rewrite Hm. clear Hm. subst c S. cbn [mc_id mc_items].
  (* projections of T *)
  destruct (to_overlay_store cf cid items base) as (HTr & HTn & HTc & HTk). fold T in HTr, HTn, HTc, HTk.
  assert (HTrov : rov T = rov base) by (apply to_overlay_rov_nodes; exact Hkind).
  assert (HTaov : forall id n, In (id, n) (nv items) -> alook (aov T) id = Some (cid, n)) by (intros id n Hin; apply to_overlay_aov; assumption).
  (* apply the items *)
  unfold with_queue. cbn [fold_left apply_item roots nodes nrc kv rov aov kvov mqueue mcid next_id locked readers to_deref].
  replace (alook (roots T) k) with (@None (node * N)) by (rewrite HTr; unfold base; cbn [roots]; symmetry; exact Hk).
  set (S1 := set_store _ _ _ _).
  set (S2 := fold_left (apply_item cf fuel) items S1).
  cbn [clean_ov].
  set (S3 := {| roots := roots S2; nodes := nodes S2; nrc := nrc S2; kv := kv S2; rov := drop_tag (rov S2) k cid; aov := aov S2; kvov := kvov S2;
                mqueue := mqueue S2; mcid := mcid S2; next_id := next_id S2; locked := locked S2; readers := readers S2; to_deref := to_deref S2 |}).
  assert (H2roots : roots S2 = aput (roots T) k (root, 1)) by (unfold S2; rewrite apply_roots_nodes by exact Hkind; reflexivity).
  assert (H2rov : rov S2 = rov T) by (unfold S2; rewrite fold_apply_rov by exact Hkind; reflexivity).
  assert (H2aov : aov S2 = aov T) by (unfold S2; rewrite fold_apply_aov by exact Hkind; reflexivity).
  assert (H2q : mqueue S2 = []) by (unfold S2; rewrite fold_apply_queue; reflexivity).
  split.
  - rewrite clean_ov_queue. exact H2q.
  - (* stores are not touched by the overlay cleanup *)
    destruct (clean_ov_store cid items S3) as (HCr & HCn & _ & _).
    cbn [root_is]. exists ids. split.
    + unfold get_root. rewrite clean_ov_rov_nodes by exact Hkind. cbn [rov S3]. rewrite H2rov, HTrov. cbn [rov base].
      unfold drop_tag. rewrite alook_aput_eq, N.eqb_refl, alook_adel_eq.
      rewrite HCr. unfold S3 at 1. cbn [roots]. rewrite H2roots, alook_aput_eq. reflexivity.
    + match goal with |- Forall2 (child_is (get_node ?F)) _ _ => remember F as S' eqn:ES end.
      assert (Hmono : forall id n, g_of (nv items) id = Some n -> get_node S' id = Some n).
      { intros id n Hg. unfold g_of in Hg. apply alook_in in Hg. subst S'. unfold get_node.
        rewrite (clean_ov_aov_gone cid items S3 id n Hg); [|intros id' n' H'; exists n'; unfold S3; cbn [aov]; rewrite H2aov; apply HTaov; exact H'|exact Hnd].
        rewrite HCn. unfold S3. cbn [nodes]. unfold S2. apply apply_nodes; assumption. }
      clear - Hc Hmono. induction Hc as [|c0 i cs' ids' Hci Hrest IHc]; [constructor|]. constructor; [|exact IHc].
      eapply child_is_mono; [exact Hmono|exact Hci].
Qed.

(* ---- a node that another tree still references survives a dereference ---- *)
Theorem shared_node_survives fuel s id c :
  alook (nrc s) id = Some c -> 2 <= c ->
  let s' := deref_children (S (S fuel)) s [id] in
  nodes s' = nodes s /\ roots s' = roots s /\
  alook (nrc s') id = (if 2 <? c then Some (c - 1) else None).
Proof.
  intros Hc Hge. cbn [deref_children]. rewrite Hc. destruct (N.ltb_spec 2 c) as [H|H].
  - cbn [deref_children set_store nodes roots nrc]. repeat split. apply alook_aput_eq.
  - cbn [deref_children set_store nodes roots nrc]. repeat split. apply alook_adel_eq.
Qed.

(* ... while a node nobody else references is removed together with the children only it referenced *)
Theorem unshared_leaf_is_reclaimed fuel s id d :
  alook (nrc s) id = None -> get_node s id = Some {| n_data := d; n_children := [] |} -> alook (aov s) id = None ->
  let s' := deref_children (S (S fuel)) s [id] in
  alook (nodes s') id = None.
Proof.
  intros Hc Hn Ha. cbn [deref_children]. rewrite Hc, Hn. cbn [n_children deref_children set_store nodes]. apply alook_adel_eq.
Qed.
