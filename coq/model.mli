
val negb : bool -> bool

type nat =
| O
| S of nat

val fst : ('a1 * 'a2) -> 'a1

val snd : ('a1 * 'a2) -> 'a2

type comparison =
| Eq
| Lt
| Gt

val add : nat -> nat -> nat

val mul : nat -> nat -> nat

val sub : nat -> nat -> nat

val divmod : nat -> nat -> nat -> nat -> nat * nat

val div : nat -> nat -> nat

type positive =
| XI of positive
| XO of positive
| XH

type n =
| N0
| Npos of positive

module Pos :
 sig
  type mask =
  | IsNul
  | IsPos of positive
  | IsNeg
 end

module Coq_Pos :
 sig
  val succ : positive -> positive

  val add : positive -> positive -> positive

  val add_carry : positive -> positive -> positive

  val pred_double : positive -> positive

  type mask = Pos.mask =
  | IsNul
  | IsPos of positive
  | IsNeg

  val succ_double_mask : mask -> mask

  val double_mask : mask -> mask

  val double_pred_mask : positive -> mask

  val sub_mask : positive -> positive -> mask

  val sub_mask_carry : positive -> positive -> mask

  val mul : positive -> positive -> positive

  val iter : ('a1 -> 'a1) -> 'a1 -> positive -> 'a1

  val pow : positive -> positive -> positive

  val compare_cont : comparison -> positive -> positive -> comparison

  val compare : positive -> positive -> comparison

  val eqb : positive -> positive -> bool

  val shiftl : positive -> n -> positive

  val of_succ_nat : nat -> positive
 end

module N :
 sig
  val succ_double : n -> n

  val double : n -> n

  val add : n -> n -> n

  val sub : n -> n -> n

  val mul : n -> n -> n

  val compare : n -> n -> comparison

  val eqb : n -> n -> bool

  val leb : n -> n -> bool

  val max : n -> n -> n

  val div2 : n -> n

  val pow : n -> n -> n

  val pos_div_eucl : positive -> n -> n * n

  val div_eucl : n -> n -> n * n

  val div : n -> n -> n

  val modulo : n -> n -> n

  val shiftl : n -> n -> n

  val shiftr : n -> n -> n

  val of_nat : nat -> n
 end

val nth : nat -> 'a1 list -> 'a1 -> 'a1

val map : ('a1 -> 'a2) -> 'a1 list -> 'a2 list

val table_size_tiers_bits : n

val index_chunk_entries_bits : n

val m64 : n

val address_bits : n -> n

val pk_of : n -> n -> n

val shl64 : n -> n -> n

val extract_key : n -> n -> n

val entry_at : n list -> nat -> n

val first_from : (n -> bool) -> n list -> nat -> nat -> nat option

val answer : n list -> nat option -> n * nat

val base_match : n -> n -> n -> bool

val find_entry_base : n -> n -> nat -> n list -> n * nat

val sse_shift : n -> n

val sse_pk : n -> n -> n

val lo32 : n -> n

val hi32 : n -> n

val load2 : n -> n -> n list

val srl_epi64 : n list -> n -> n list

val shuffle_d8 : n list -> n list

val unpacklo_epi64 : n list -> n list -> n list

val cmpeq_epi32 : n list -> n -> bool list

val movemask_epi8 : bool list -> n

val ctz_pos : positive -> nat

val trailing_zeros : n -> nat

val group_cmp : n -> n -> n list -> nat -> n

val sse_loop : n -> n -> n list -> nat -> nat -> nat -> n * nat

val find_entry_sse2 : n -> n -> nat -> n list -> n * nat

val lane_of : n -> n -> n

val fast_match : n -> n -> n -> bool

val find_spec : n -> n -> nat -> n list -> n * nat
