(* Model of multitree columns (src/db.rs commit_changes / process_commits / defer_commit /
   write_dereference_children_plan, src/column.rs claim_tree_values and the address reference
   counts) at the level of abstract node identities.
   Column 0 is the multitree column, column 1 a plain hash column (so that transactions can mix a
   tree dereference with ordinary writes). The write-ahead-log layers are those of Model/Pipeline.v
   and are not repeated here: [process] applies a commit to the logged state directly.
   Definitions only. *)
From Coq Require Import NArith List Bool.
Import ListNotations.
Open Scope N_scope.

Definition nid := N.      (* node identity: stands for the value-table address *)
Definition key := N.

Record node := { n_data : N; n_children : list nid }.

Inductive tree := TNode (data : N) (children : list tchild)
with tchild := TNew (t : tree) | TExisting (id : nid).

(* what a commit carries after commit_changes has prepared it *)
Inductive mitem :=
| MRootSet (k : key) (n : node)          (* Operation::Set of the packed root *)
| MRootRef (k : key)                     (* Operation::Reference of the root *)
| MNewValue (id : nid) (n : node)        (* NodeChange::NewValue *)
| MIncRef (id : nid)                     (* NodeChange::IncrementReference *)
| MDerefChildren (k : key) (children : list nid)   (* NodeChange::DereferenceChildren *)
| MKvSet (k : key) (v : N)               (* plain column *)
| MKvDel (k : key).

(* mc_first: the id the commit got when it was first queued; a deferral gives it a new mc_id and keeps this one *)
Record mcommit := { mc_id : N; mc_first : N; mc_items : list mitem; mc_check : bool; mc_used : list key }.

Inductive uop :=
| UInsertTree (k : key) (t : tree)
| URefTree (k : key)
| UDerefTree (k : key)
| UKvSet (k : key) (v : N)
| UKvDel (k : key)
| UBadSet (k : key).                     (* a plain Set aimed at the multitree column: invalid *)

Record mcfg := { m_rc : bool; m_append_only : bool }.

Fixpoint alook {A} (m : list (N * A)) (k : N) : option A :=
  match m with [] => None | (k', a) :: r => if k' =? k then Some a else alook r k end.
Definition adel {A} (m : list (N * A)) (k : N) : list (N * A) := filter (fun e => negb (fst e =? k)) m.
Definition aput {A} (m : list (N * A)) (k : N) (a : A) : list (N * A) := (k, a) :: adel m k.
Definition amem (l : list N) (k : N) : bool := existsb (N.eqb k) l.

Record mstate := {
  roots : list (key * (node * N));          (* logged roots with their count *)
  nodes : list (nid * node);                (* logged nodes *)
  nrc : list (nid * N);                     (* node counts above one (absent = one) *)
  kv : list (key * N);                      (* logged plain column *)
  rov : list (key * (N * option node));     (* commit overlay, roots *)
  aov : list (nid * (N * node));            (* commit overlay, nodes by address *)
  kvov : list (key * (N * option N));       (* commit overlay, plain column *)
  mqueue : list mcommit;
  mcid : N;                                 (* CommitQueue::record_id *)
  next_id : nid;                            (* next fresh node identity *)
  locked : list key;                        (* trees whose reader lock is held *)
  readers : list key;                       (* trees for which a reader object exists *)
  to_deref : list (key * N)                 (* Trees::to_dereference *)
}.

Definition minit : mstate :=
  {| roots := []; nodes := []; nrc := []; kv := []; rov := []; aov := []; kvov := []; mqueue := [];
     mcid := 0; next_id := 1; locked := []; readers := []; to_deref := [] |}.

(* ---- reads ---- *)
Definition get_root (s : mstate) (k : key) : option node :=
  match alook (rov s) k with
  | Some (_, r) => r
  | None => option_map fst (alook (roots s) k)
  end.
Definition get_node (s : mstate) (id : nid) : option node :=
  match alook (aov s) id with
  | Some (_, n) => Some n
  | None => alook (nodes s) id
  end.
Definition get_kv (s : mstate) (k : key) : option N :=
  match alook (kvov s) k with Some (_, v) => v | None => alook (kv s) k end.

(* ---- preparing a tree insertion (claim_tree_values) ---- *)
Fixpoint claim_tree (append_only : bool) (t : tree) (next : nid) : nid * (nid * list mitem) :=
  match t with
  | TNode d cs =>
      let own := next in
      let '(ids, (next', items)) :=
        (fix go (cs : list tchild) (nx : nid) : list nid * (nid * list mitem) :=
           match cs with
           | [] => ([], (nx, []))
           | TNew t' :: rest =>
               let '(i, (nx1, it1)) := claim_tree append_only t' nx in
               let '(is, (nx2, it2)) := go rest nx1 in (i :: is, (nx2, it1 ++ it2))
           | TExisting i :: rest =>
               let '(is, (nx2, it2)) := go rest nx in
               (i :: is, (nx2, (if append_only then [] else [MIncRef i]) ++ it2))
           end) cs (next + 1) in
      (own, (next', items ++ [MNewValue own {| n_data := d; n_children := ids |}]))
  end.

Fixpoint max_fanout (t : tree) : N :=
  match t with
  | TNode _ cs =>
      N.max (N.of_nat (length cs))
            ((fix go (cs : list tchild) : N :=
                match cs with
                | [] => 0
                | TNew t' :: rest => N.max (max_fanout t') (go rest)
                | TExisting _ :: rest => go rest
                end) cs)
  end.

(* root data and node changes of InsertTree: the root is not a node of its own *)
Definition claim_root (append_only : bool) (t : tree) (next : nid) : node * (nid * list mitem) :=
  match t with
  | TNode d cs =>
      let '(ids, (next', items)) :=
        (fix go (cs : list tchild) (nx : nid) : list nid * (nid * list mitem) :=
           match cs with
           | [] => ([], (nx, []))
           | TNew t' :: rest =>
               let '(i, (nx1, it1)) := claim_tree append_only t' nx in
               let '(is, (nx2, it2)) := go rest nx1 in (i :: is, (nx2, it1 ++ it2))
           | TExisting i :: rest =>
               let '(is, (nx2, it2)) := go rest nx in
               (i :: is, (nx2, (if append_only then [] else [MIncRef i]) ++ it2))
           end) cs next in
      ({| n_data := d; n_children := ids |}, (next', items))
  end.

(* ---- commit_changes: operations are prepared one by one; the first invalid one aborts the
   call, keeping the side effects already taken (claimed identities, to_dereference counters) ---- *)
Record prep := { p_roots : list mitem; p_nodes : list mitem; p_kv : list mitem; p_check : bool; p_used : list key }.

Definition locked_pending (s : mstate) : list key :=
  map fst (filter (fun e => amem (locked s) (fst e)) (to_deref s)).

(* result code: 0 ok, 1 InvalidInput, 2 InvalidConfiguration *)
Fixpoint prepare (cf : mcfg) (ops : list uop) (s : mstate) (p : prep) : mstate * prep * N :=
  match ops with
  | [] => (s, p, 0)
  | o :: rest =>
      match o with
      | UBadSet _ => (s, p, 2)
      | UKvSet k v => prepare cf rest s {| p_roots := p_roots p; p_nodes := p_nodes p; p_kv := p_kv p ++ [MKvSet k v]; p_check := p_check p; p_used := p_used p |}
      | UKvDel k => prepare cf rest s {| p_roots := p_roots p; p_nodes := p_nodes p; p_kv := p_kv p ++ [MKvDel k]; p_check := p_check p; p_used := p_used p |}
      | UInsertTree k t =>
          if 255 <? max_fanout t then (s, p, 1)
          else
            let '(root, (next', items)) := claim_root (m_append_only cf) t (next_id s) in
            let s' := {| roots := roots s; nodes := nodes s; nrc := nrc s; kv := kv s; rov := rov s; aov := aov s; kvov := kvov s;
                         mqueue := mqueue s; mcid := mcid s; next_id := next'; locked := locked s; readers := readers s; to_deref := to_deref s |} in
            prepare cf rest s' {| p_roots := p_roots p ++ [MRootSet k root]; p_nodes := p_nodes p ++ items; p_kv := p_kv p;
                                  p_check := p_check p; p_used := p_used p ++ locked_pending s |}
      | URefTree k =>
          if m_append_only cf then prepare cf rest s p
          else prepare cf rest s {| p_roots := p_roots p ++ [MRootRef k]; p_nodes := p_nodes p; p_kv := p_kv p; p_check := p_check p; p_used := p_used p |}
      | UDerefTree k =>
          if m_append_only cf then (s, p, 2)
          else match get_root s k with
               | None => (s, p, 2)
               | Some r =>
                   let cnt := match alook (to_deref s) k with Some c => c | None => 0 end in
                   let s' := {| roots := roots s; nodes := nodes s; nrc := nrc s; kv := kv s; rov := rov s; aov := aov s; kvov := kvov s;
                                mqueue := mqueue s; mcid := mcid s; next_id := next_id s; locked := locked s; readers := readers s;
                                to_deref := aput (to_deref s) k (cnt + 1) |} in
                   prepare cf rest s' {| p_roots := p_roots p; p_nodes := p_nodes p ++ [MDerefChildren k (n_children r)]; p_kv := p_kv p;
                                         p_check := true; p_used := p_used p |}
               end
      end
  end.

(* copy_to_overlay of one commit under identity [cid] *)
Fixpoint to_overlay (cf : mcfg) (cid : N) (items : list mitem) (s : mstate) : mstate :=
  match items with
  | [] => s
  | it :: rest =>
      let s' :=
        match it with
        | MRootSet k n => {| roots := roots s; nodes := nodes s; nrc := nrc s; kv := kv s; rov := aput (rov s) k (cid, Some n); aov := aov s; kvov := kvov s;
                             mqueue := mqueue s; mcid := mcid s; next_id := next_id s; locked := locked s; readers := readers s; to_deref := to_deref s |}
        | MNewValue id n => {| roots := roots s; nodes := nodes s; nrc := nrc s; kv := kv s; rov := rov s; aov := aput (aov s) id (cid, n); kvov := kvov s;
                               mqueue := mqueue s; mcid := mcid s; next_id := next_id s; locked := locked s; readers := readers s; to_deref := to_deref s |}
        | MKvSet k v => {| roots := roots s; nodes := nodes s; nrc := nrc s; kv := kv s; rov := rov s; aov := aov s; kvov := aput (kvov s) k (cid, Some v);
                           mqueue := mqueue s; mcid := mcid s; next_id := next_id s; locked := locked s; readers := readers s; to_deref := to_deref s |}
        | MKvDel k => {| roots := roots s; nodes := nodes s; nrc := nrc s; kv := kv s; rov := rov s; aov := aov s; kvov := aput (kvov s) k (cid, None);
                         mqueue := mqueue s; mcid := mcid s; next_id := next_id s; locked := locked s; readers := readers s; to_deref := to_deref s |}
        | _ => s
        end in
      to_overlay cf cid rest s'
  end.

Definition drop_tag {A} (m : list (N * (N * A))) (k : N) (cid : N) : list (N * (N * A)) :=
  match alook m k with Some (i, _) => if i =? cid then adel m k else m | None => m end.

Fixpoint clean_ov (cid : N) (items : list mitem) (s : mstate) : mstate :=
  match items with
  | [] => s
  | it :: rest =>
      let s' :=
        match it with
        | MRootSet k _ => {| roots := roots s; nodes := nodes s; nrc := nrc s; kv := kv s; rov := drop_tag (rov s) k cid; aov := aov s; kvov := kvov s;
                             mqueue := mqueue s; mcid := mcid s; next_id := next_id s; locked := locked s; readers := readers s; to_deref := to_deref s |}
        | MNewValue id _ => {| roots := roots s; nodes := nodes s; nrc := nrc s; kv := kv s; rov := rov s; aov := drop_tag (aov s) id cid; kvov := kvov s;
                               mqueue := mqueue s; mcid := mcid s; next_id := next_id s; locked := locked s; readers := readers s; to_deref := to_deref s |}
        | MKvSet k _ | MKvDel k =>
                        {| roots := roots s; nodes := nodes s; nrc := nrc s; kv := kv s; rov := rov s; aov := aov s; kvov := drop_tag (kvov s) k cid;
                           mqueue := mqueue s; mcid := mcid s; next_id := next_id s; locked := locked s; readers := readers s; to_deref := to_deref s |}
        | _ => s
        end in
      clean_ov cid rest s'
  end.

Definition items_of (p : prep) : list mitem := p_roots p ++ p_kv p ++ p_nodes p.

(* DbInner::validate_changes (repair F7): an operation that is invalid for its column rejects the transaction
   before anything is claimed or registered; first the checks of commit_changes in the order of the operations,
   then the check of commit_raw (a reference on a column without counting) *)
Fixpoint static_code (cf : mcfg) (ops : list uop) : N :=
  match ops with
  | [] => 0
  | UBadSet _ :: _ => 2
  | UInsertTree _ t :: rest => if 255 <? max_fanout t then 1 else static_code cf rest
  | UDerefTree _ :: rest => if m_append_only cf then 2 else static_code cf rest
  | _ :: rest => static_code cf rest
  end.
Definition static_ref_code (cf : mcfg) (ops : list uop) : N :=
  if existsb (fun o => match o with URefTree _ => negb (m_append_only cf) && negb (m_rc cf) | _ => false end) ops then 1 else 0.

Definition mcommit_tx (cf : mcfg) (s : mstate) (ops : list uop) : mstate * N :=
  if negb (static_code cf ops =? 0) then (s, static_code cf ops) else
  if negb (static_ref_code cf ops =? 0) then (s, static_ref_code cf ops) else
  let '(s1, p, code) := prepare cf ops s {| p_roots := []; p_nodes := []; p_kv := []; p_check := false; p_used := [] |} in
  if negb (code =? 0) then (s1, code)
  else if existsb (fun it => match it with MRootRef _ => negb (m_rc cf) | _ => false end) (p_roots p) then (s1, 1)
  else
    let cid := mcid s1 + 1 in
    let c := {| mc_id := cid; mc_first := cid; mc_items := items_of p; mc_check := p_check p; mc_used := p_used p |} in
    let s2 := to_overlay cf cid (items_of p) s1 in
    ({| roots := roots s2; nodes := nodes s2; nrc := nrc s2; kv := kv s2; rov := rov s2; aov := aov s2; kvov := kvov s2;
        mqueue := mqueue s2 ++ [c]; mcid := cid; next_id := next_id s2; locked := locked s2; readers := readers s2; to_deref := to_deref s2 |}, 0).

(* ---- applying one commit to the logged state (the write_plan calls of process_commits) ---- *)
Definition set_store (s : mstate) r n c : mstate :=
  {| roots := r; nodes := n; nrc := c; kv := kv s; rov := rov s; aov := aov s; kvov := kvov s;
     mqueue := mqueue s; mcid := mcid s; next_id := next_id s; locked := locked s; readers := readers s; to_deref := to_deref s |}.

(* write_dereference_children_plan: the children of a removed node are read through get_node
   (commit overlay first) BEFORE its slot is freed *)
Fixpoint deref_children (fuel : nat) (s : mstate) (children : list nid) : mstate :=
  match fuel with
  | O => s
  | S f =>
      match children with
      | [] => s
      | id :: rest =>
          let node := get_node s id in
          let s' :=
            match alook (nrc s) id with
            | Some c => if 2 <? c then set_store s (roots s) (nodes s) (aput (nrc s) id (c - 1))
                        else set_store s (roots s) (nodes s) (adel (nrc s) id)
            | None =>
                let s1 := set_store s (roots s) (adel (nodes s) id) (nrc s) in
                match node with
                | Some n => deref_children f s1 (n_children n)
                | None => s1
                end
            end in
          deref_children f s' rest
      end
  end.

Definition apply_item (cf : mcfg) (fuel : nat) (s : mstate) (it : mitem) : mstate :=
  match it with
  | MRootSet k n =>
      match alook (roots s) k with
      | Some (n0, c) => if m_rc cf then set_store s (aput (roots s) k (n0, c + 1)) (nodes s) (nrc s)
                        else set_store s (aput (roots s) k (n, c)) (nodes s) (nrc s)
      | None => set_store s (aput (roots s) k (n, 1)) (nodes s) (nrc s)
      end
  | MRootRef k =>
      match alook (roots s) k with
      | Some (n0, c) => if m_rc cf then set_store s (aput (roots s) k (n0, c + 1)) (nodes s) (nrc s) else s
      | None => s
      end
  | MNewValue id n => set_store s (roots s) (aput (nodes s) id n) (nrc s)
  | MIncRef id =>
      match alook (nrc s) id with
      | Some c => set_store s (roots s) (nodes s) (aput (nrc s) id (c + 1))
      | None => set_store s (roots s) (nodes s) (aput (nrc s) id 2)
      end
  | MDerefChildren k children =>
      match alook (roots s) k with
      | Some (n0, c) =>
          if m_rc cf && (1 <? c) then set_store s (aput (roots s) k (n0, c - 1)) (nodes s) (nrc s)
          else deref_children fuel (set_store s (adel (roots s) k) (nodes s) (nrc s)) children
      | None => s
      end
  | MKvSet k v => {| roots := roots s; nodes := nodes s; nrc := nrc s; kv := aput (kv s) k v; rov := rov s; aov := aov s; kvov := kvov s;
                     mqueue := mqueue s; mcid := mcid s; next_id := next_id s; locked := locked s; readers := readers s; to_deref := to_deref s |}
  | MKvDel k => {| roots := roots s; nodes := nodes s; nrc := nrc s; kv := adel (kv s) k; rov := rov s; aov := aov s; kvov := kvov s;
                   mqueue := mqueue s; mcid := mcid s; next_id := next_id s; locked := locked s; readers := readers s; to_deref := to_deref s |}
  end.

Definition deref_keys (items : list mitem) : list key :=
  flat_map (fun it => match it with MDerefChildren k _ => [k] | _ => [] end) items.

Definition with_queue (s : mstate) (q : list mcommit) : mstate :=
  {| roots := roots s; nodes := nodes s; nrc := nrc s; kv := kv s; rov := rov s; aov := aov s; kvov := kvov s;
     mqueue := q; mcid := mcid s; next_id := next_id s; locked := locked s; readers := readers s; to_deref := to_deref s |}.

Definition dec_to_deref (s : mstate) (k : key) : mstate :=
  match alook (to_deref s) k with
  | Some c =>
      {| roots := roots s; nodes := nodes s; nrc := nrc s; kv := kv s; rov := rov s; aov := aov s; kvov := kvov s;
         mqueue := mqueue s; mcid := mcid s; next_id := next_id s; locked := locked s; readers := readers s;
         to_deref := if c =? 1 then adel (to_deref s) k else aput (to_deref s) k (c - 1) |}
  | None => s
  end.

(* process_commits: one queued commit; a tree dereference is deferred while the tree is locked or
   a queued commit MADE LATER depends on it (a commit made earlier that sits behind this one only
   because it was deferred itself is not waited for). Deferral re-queues the commit at the BACK,
   under a new identity if anything else is queued (defer_commit). *)
Definition waits_for (c : mcommit) (rest : list mcommit) (k : key) : bool :=
  existsb (fun c' => (mc_first c <? mc_first c') && amem (mc_used c') k) rest.
Definition must_defer (s : mstate) (c : mcommit) (rest : list mcommit) : bool :=
  mc_check c &&
  existsb (fun k => amem (locked s) k || waits_for c rest k) (deref_keys (mc_items c)).

Definition mprocess (cf : mcfg) (s : mstate) : mstate :=
  match mqueue s with
  | [] => s
  | c :: rest =>
      if must_defer s c rest then
        match rest with
        | [] => with_queue s [c]
        | _ =>
            let nid' := mcid s + 1 in
            let s1 := to_overlay cf nid' (mc_items c) s in
            let s2 := clean_ov (mc_id c) (mc_items c) s1 in
            {| roots := roots s2; nodes := nodes s2; nrc := nrc s2; kv := kv s2; rov := rov s2; aov := aov s2; kvov := kvov s2;
               mqueue := rest ++ [{| mc_id := nid'; mc_first := mc_first c; mc_items := mc_items c; mc_check := mc_check c; mc_used := mc_used c |}];
               mcid := nid'; next_id := next_id s2; locked := locked s2; readers := readers s2; to_deref := to_deref s2 |}
        end
      else
        let s0 := if mc_check c then fold_left dec_to_deref (deref_keys (mc_items c)) s else s in
        (* enough for every node and every edge of the store to be visited once *)
        let fuel := (2 + fold_right (fun e a => 2 + length (n_children (snd e)) + a) 0 (nodes s0)
                       + fold_right (fun e a => 2 + length (n_children (snd (snd e))) + a) 0 (aov s0)
                       + fold_right (fun it a => match it with MDerefChildren _ cs => 1 + length cs | _ => 0 end + a) 0 (mc_items c))%nat in
        let s1 := fold_left (apply_item cf (2 * fuel)) (mc_items c) (with_queue s0 rest) in
        clean_ov (mc_id c) (mc_items c) s1
  end.

Fixpoint mprocess_all (cf : mcfg) (fuel : nat) (s : mstate) : mstate :=
  match fuel with
  | O => s
  | S f => match mqueue s with [] => s | _ => mprocess_all cf f (mprocess cf s) end
  end.

Definition mlock (s : mstate) (k : key) : mstate :=
  match get_root s k with
  | None => s
  | Some _ =>
      {| roots := roots s; nodes := nodes s; nrc := nrc s; kv := kv s; rov := rov s; aov := aov s; kvov := kvov s;
         mqueue := mqueue s; mcid := mcid s; next_id := next_id s;
         locked := if amem (locked s) k then locked s else k :: locked s;
         readers := if amem (readers s) k then readers s else k :: readers s; to_deref := to_deref s |}
  end.
Definition munlock (s : mstate) (k : key) : mstate :=
  {| roots := roots s; nodes := nodes s; nrc := nrc s; kv := kv s; rov := rov s; aov := aov s; kvov := kvov s;
     mqueue := mqueue s; mcid := mcid s; next_id := next_id s;
     locked := filter (fun x => negb (x =? k)) (locked s); readers := readers s; to_deref := to_deref s |}.

(* drop + open: locks are gone, everything queued is processed (a deferral with nothing else queued
   keeps its identity and is retried: with no lock held it goes through) *)
Definition mreopen (cf : mcfg) (s : mstate) : mstate :=
  let s1 := {| roots := roots s; nodes := nodes s; nrc := nrc s; kv := kv s; rov := rov s; aov := aov s; kvov := kvov s;
               mqueue := mqueue s; mcid := mcid s; next_id := next_id s; locked := []; readers := []; to_deref := to_deref s |} in
  (* enough for the whole queue whatever defers (Proofs/MultiTreeDrain.v) *)
  let s2 := mprocess_all cf (length (mqueue s1) * length (mqueue s1)) s1 in
  {| roots := roots s2; nodes := nodes s2; nrc := nrc s2; kv := kv s2; rov := []; aov := []; kvov := []; mqueue := [];
     mcid := 0; next_id := next_id s2; locked := []; readers := []; to_deref := [] |}.

(* process crash (page cache survives) + open: every processed commit is in the log and is replayed;
   everything still queued - deferred commits included - is lost with the overlays, locks and the
   pending-dereference bookkeeping *)
Definition mcrash (s : mstate) : mstate :=
  {| roots := roots s; nodes := nodes s; nrc := nrc s; kv := kv s; rov := []; aov := []; kvov := []; mqueue := [];
     mcid := 0; next_id := next_id s; locked := []; readers := []; to_deref := [] |}.

(* number of value entries of the multitree column: roots and nodes *)
Definition num_entries (s : mstate) : N := N.of_nat (length (roots s) + length (nodes s)).

(* ---- node packing (column.rs claim_node / unpack_node_data): data ++ child addresses (8 bytes LE
   each) ++ [number of children] ---- *)
Fixpoint le8 (n : nat) (x : N) : list N := match n with O => [] | S k => x mod 256 :: le8 k (x / 256) end.
Fixpoint unle (bs : list N) : N := match bs with [] => 0 | b :: r => b + 256 * unle r end.
Definition pack_node (data : list N) (children : list N) : list N :=
  data ++ flat_map (le8 8) children ++ [N.of_nat (length children)].
Fixpoint chunks8 (n : nat) (bs : list N) : list N :=
  match n with O => [] | S k => unle (firstn 8 bs) :: chunks8 k (skipn 8 bs) end.
Definition unpack_node (raw : list N) : option (list N * list N) :=
  match rev raw with
  | [] => None
  | cnt :: _ =>
      let n := N.to_nat cnt in
      if Nat.ltb (length raw) (8 * n + 1)%nat then None
      else let dlen := (length raw - (8 * n + 1))%nat in
           Some (firstn dlen raw, chunks8 n (skipn dlen raw))
  end.
