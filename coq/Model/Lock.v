(* C18: the directory lock (src/db.rs: try_lock_exclusive on the lock file before anything is read or
   replayed; unlocked on drop; released by the operating system when the holder dies). A handle is
   named by a number; [content] stands for everything in the directory. Definitions only. *)
From Coq Require Import NArith List Bool.
Import ListNotations.
Open Scope N_scope.

Record lstate := { holder : option N; content : N }.

Inductive lop :=
| LOpen (h : N)        (* an attempt to open the directory under the name h *)
| LDrop (h : N)        (* the handle h is dropped *)
| LKill (h : N)        (* the process holding h dies *)
| LWrite (h : N) (c : N).  (* the holder h changes the directory (commits, recovery, shutdown) *)

(* result: 0 = done, 1 = lock error *)
Definition lstep (s : lstate) (o : lop) : lstate * N :=
  match o with
  | LOpen h => match holder s with
               | None => ({| holder := Some h; content := content s |}, 0)
               | Some _ => (s, 1)
               end
  | LDrop h | LKill h => match holder s with
                         | Some h' => if h' =? h then ({| holder := None; content := content s |}, 0) else (s, 0)
                         | None => (s, 0)
                         end
  | LWrite h c => match holder s with
                  | Some h' => if h' =? h then ({| holder := Some h; content := c |}, 0) else (s, 1)
                  | None => (s, 1)
                  end
  end.

Fixpoint lrun (s : lstate) (ops : list lop) : lstate * list N :=
  match ops with
  | [] => (s, [])
  | o :: r => let '(s1, x) := lstep s o in let '(s2, xs) := lrun s1 r in (s2, x :: xs)
  end.

(* the handles alive after a history: opened successfully and not yet dropped or killed *)
Fixpoint live (s : lstate) (ops : list lop) (acc : list N) : list N :=
  match ops with
  | [] => acc
  | o :: r =>
      let '(s1, x) := lstep s o in
      let acc1 := match o with
                  | LOpen h => if x =? 0 then h :: acc else acc
                  | LDrop h | LKill h => filter (fun a => negb (a =? h)) acc
                  | LWrite _ _ => acc
                  end in
      live s1 r acc1
  end.
