(* A checker for dumps of the on-disk btree (src/btree/node.rs layout read back from the raw
   files by the harness's own parser), and the functions its soundness theorem speaks about. *)
From Coq Require Import NArith List Bool.
From PDB Require Import Gen.Consts.
Import ListNotations.
Open Scope N_scope.

(* a node: leftmost child, then separators (key) each followed by the child to its right *)
Inductive bt := BNode (first : option bt) (seps : list (N * option bt)).

Fixpoint inorder (t : bt) : list N :=
  match t with
  | BNode first seps =>
      (match first with Some c => inorder c | None => [] end) ++
      (fix go (l : list (N * option bt)) : list N :=
         match l with
         | [] => []
         | (k, c) :: r => k :: (match c with Some c' => inorder c' | None => [] end) ++ go r
         end) seps
  end.

(* keys are positive numbers; a bound of 0 below means "none", the caller passes a number above
   every key as the upper bound *)
Definition in_range (lo hi k : N) : bool := (lo <? k) && (k <? hi).

(* [depth] = levels below this node (0 = leaf). Keys strictly increasing and inside (lo, hi), every
   child present exactly at inner levels, at most ORDER separators. *)
Fixpoint wf_b (depth : nat) (lo hi : N) (t : bt) : bool :=
  match t with
  | BNode first seps =>
      (N.of_nat (length seps) <=? btree_order) &&
      (let first_hi := match seps with (k, _) :: _ => k | [] => hi end in
       match depth, first with
       | O, None => true
       | S d, Some c => wf_b d lo first_hi c
       | _, _ => false
       end) &&
      (fix go (l : list (N * option bt)) (lo : N) : bool :=
         match l with
         | [] => true
         | (k, c) :: r =>
             in_range lo hi k &&
             (let next_hi := match r with (k', _) :: _ => k' | [] => hi end in
              match depth, c with
              | O, None => true
              | S d, Some c' => wf_b d k next_hi c'
              | _, _ => false
              end) &&
             go r k
         end) seps lo
  end.

(* depth of every leaf, as a list *)
Fixpoint leaf_depths (t : bt) (d : nat) : list nat :=
  match t with
  | BNode first seps =>
      match first, seps with
      | None, _ => [d]
      | Some c, _ => leaf_depths c (S d)
      end ++
      (fix go (l : list (N * option bt)) : list nat :=
         match l with
         | [] => []
         | (_, Some c) :: r => leaf_depths c (S d) ++ go r
         | (_, None) :: r => go r
         end) seps
  end.
