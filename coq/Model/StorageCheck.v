(* C14: a checker for the raw content of one value table (src/table.rs layout). The harness reads
   the file itself and classifies every slot below the fill mark from its first bytes:
     RFree next   tombstone (0xffff) with the index of the next free slot
     RHead next   first part of a multi-part value (0xfffd / 0x7ffd) with the index of the next part
     RPart next   continuation part (0xfffe) with the index of the next part
     RSize        an entry that starts with a size: a complete value, or the last part of a chain
     RBad         unreadable (beyond the end of the file)
   The checker walks the free list from the header's head and every chain from its head and decides
   whether each slot 1 .. filled-1 is used exactly once. Definitions only. *)
From Coq Require Import NArith List Bool Arith.
Import ListNotations.
Open Scope N_scope.

Inductive rslot := RFree (next : N) | RHead (next : N) | RPart (next : N) | RSize | RBad.

Record tdump := { filled : N; free_head : N; slots : list rslot }.   (* slots: index 1, 2, ... *)

Definition slot_at (d : tdump) (i : N) : option rslot :=
  if (i =? 0) || (filled d <=? i) then None else nth_error (slots d) (N.to_nat (i - 1)).

(* the free list: follow [next] from the head until 0; every node must be a tombstone in range *)
Fixpoint walk_free (fuel : nat) (d : tdump) (i : N) : option (list N) :=
  if i =? 0 then Some [] else
  match fuel with
  | O => None
  | S f => match slot_at d i with
           | Some (RFree nx) => option_map (cons i) (walk_free f d nx)
           | _ => None
           end
  end.

(* the parts of a chain after its head *)
Fixpoint walk_parts (fuel : nat) (d : tdump) (i : N) : option (list N) :=
  match fuel with
  | O => None
  | S f => match slot_at d i with
           | Some (RPart nx) => option_map (cons i) (walk_parts f d nx)
           | Some RSize => Some [i]
           | _ => None
           end
  end.

Definition indices (d : tdump) : list N := map (fun k => N.of_nat k + 1) (seq 0 (length (slots d))).

(* slots some chain part points to *)
Definition targets (d : tdump) : list N :=
  flat_map (fun s => match s with RHead nx | RPart nx => [nx] | _ => [] end) (slots d).
Definition memN (x : N) (l : list N) : bool := existsb (N.eqb x) l.

(* chains: one per RHead, and one single-slot chain per RSize slot nothing points to *)
Definition chains (d : tdump) : option (list (list N)) :=
  let fuel := S (length (slots d)) in
  fold_right (fun i acc =>
    match acc with
    | None => None
    | Some cs =>
        match slot_at d i with
        | Some (RHead nx) => match walk_parts fuel d nx with Some ps => Some ((i :: ps) :: cs) | None => None end
        | Some RSize => if memN i (targets d) then Some cs else Some ([i] :: cs)
        | _ => Some cs
        end
    end) (Some []) (indices d).

Fixpoint nodupb (l : list N) : bool :=
  match l with [] => true | x :: r => negb (memN x r) && nodupb r end.

Record tresult := { t_ok : bool; t_free : list N; t_chains : list (list N) }.

Definition check_table (d : tdump) : tresult :=
  let n := length (slots d) in
  if negb ((filled d =? N.of_nat n + 1) || ((filled d =? 0) && (n =? 0)%nat)) then {| t_ok := false; t_free := []; t_chains := [] |} else
  match walk_free (S n) d (free_head d), chains d with
  | Some fl, Some cs =>
      let occ := fl ++ concat cs in
      {| t_ok := nodupb occ && (length occ =? n)%nat; t_free := fl; t_chains := cs |}
  | _, _ => {| t_ok := false; t_free := []; t_chains := [] |}
  end.
