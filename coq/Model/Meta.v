(* Model of src/options.rs (column options <-> text, metadata file, validation) and of the
   file-name prefixes that decide which files belong to a column (Column::drop_files).
   Text is a list of byte codes. All literal text comes from Gen/Consts.v, i.e. from the Rust
   source. Definitions only. *)
From Coq Require Import NArith List Bool.
From PDB Require Import Gen.Consts.
Import ListNotations.
Open Scope N_scope.

Definition str := list N.

Fixpoint str_eqb (a b : str) : bool :=
  match a, b with
  | [], [] => true
  | x :: a', y :: b' => (x =? y) && str_eqb a' b'
  | _, _ => false
  end.

Fixpoint starts_with (p s : str) : bool :=
  match p, s with
  | [], _ => true
  | x :: p', y :: s' => (x =? y) && starts_with p' s'
  | _ :: _, [] => false
  end.

(* str::split(pat) for a non-empty pattern: non-overlapping matches, left to right *)
Fixpoint split_go (pat s : str) (skip : nat) (cur : str) : list str :=
  match s with
  | [] => [rev cur]
  | ch :: rest =>
      match skip with
      | S k => split_go pat rest k cur
      | O => if starts_with pat s then rev cur :: split_go pat rest (length pat - 1) []
             else split_go pat rest 0 (ch :: cur)
      end
  end.
Definition split_on (pat s : str) : list str := split_go pat s 0 [].

Fixpoint join (sep : str) (l : list str) : str :=
  match l with
  | [] => []
  | [x] => x
  | x :: rest => x ++ sep ++ join sep rest
  end.

(* ---- numbers ---- *)
Definition digit (d : N) : N := 48 + d.
Fixpoint dec_go (fuel : nat) (n : N) (acc : str) : str :=
  match fuel with
  | O => acc
  | S f => let acc' := digit (n mod 10) :: acc in
           if n / 10 =? 0 then acc' else dec_go f (n / 10) acc'
  end.
Definition dec (n : N) : str := dec_go 40 n [].
(* {:02}: at least two digits *)
Definition dec2 (n : N) : str := if n <? 10 then digit 0 :: dec n else dec n.

(* <unsigned>::from_str: optional '+', at least one digit, value <= max *)
Fixpoint parse_digits (s : str) (acc : N) : option N :=
  match s with
  | [] => Some acc
  | c :: rest => if (48 <=? c) && (c <=? 57) then parse_digits rest (acc * 10 + (c - 48)) else None
  end.
Definition parse_unsigned (max : N) (s : str) : option N :=
  let body := match s with 43 :: r => r | _ => s end in
  match body with
  | [] => None
  | _ => match parse_digits body 0 with
         | Some n => if n <=? max then Some n else None
         | None => None
         end
  end.

Definition s_true : str := [116; 114; 117; 101].
Definition s_false : str := [102; 97; 108; 115; 101].
Definition show_bool (b : bool) : str := if b then s_true else s_false.
Definition parse_bool (s : str) : option bool :=
  if str_eqb s s_true then Some true else if str_eqb s s_false then Some false else None.

(* ---- column options ---- *)
Record copt := {
  o_preimage : bool; o_uniform : bool; o_refc : bool; o_compression : N;
  o_ordered : bool; o_multitree : bool; o_append_only : bool; o_direct : bool }.

Definition copt_eqb (a b : copt) : bool :=
  Bool.eqb (o_preimage a) (o_preimage b) && Bool.eqb (o_uniform a) (o_uniform b) &&
  Bool.eqb (o_refc a) (o_refc b) && (o_compression a =? o_compression b) &&
  Bool.eqb (o_ordered a) (o_ordered b) && Bool.eqb (o_multitree a) (o_multitree b) &&
  Bool.eqb (o_append_only a) (o_append_only b) && Bool.eqb (o_direct a) (o_direct b).

Definition piece (i : nat) : str := nth i options_fmt_pieces [].
Definition pkey (i : nat) : str := nth i options_parse_keys [].

(* ColumnOptions::as_string *)
Definition col_as_string (o : copt) : str :=
  piece 0 ++ show_bool (o_preimage o) ++ piece 1 ++ show_bool (o_uniform o) ++
  piece 2 ++ show_bool (o_refc o) ++ piece 3 ++ dec (o_compression o) ++
  piece 4 ++ show_bool (o_ordered o) ++ piece 5 ++ show_bool (o_multitree o) ++
  piece 6 ++ show_bool (o_append_only o) ++ piece 7 ++ show_bool (o_direct o) ++ piece 8.

(* a HashMap<&str,&str> built by collect(): the last pair for a key wins *)
Fixpoint map_get (m : list (str * str)) (k : str) : option str :=
  match m with
  | [] => None
  | (k', v) :: rest => match map_get rest k with Some v' => Some v' | None => if str_eqb k' k then Some v else None end
  end.

Definition comma_space : str := [44; 32].
Definition colon_space : str := [58; 32].

Inductive parsed (A : Type) := POk (a : A) | PNone | PPanic.
Arguments POk {A} a. Arguments PNone {A}. Arguments PPanic {A}.

(* ColumnOptions::from_string *)
Definition col_from_string (s : str) : parsed copt :=
  let vals := hd [] (split_on options_sizes_marker s) in
  let pairs := flat_map (fun p => match split_on colon_space p with
                                  | k :: v :: _ => [(k, v)]
                                  | _ => []
                                  end) (split_on comma_space vals) in
  let req k := match map_get pairs k with Some v => parse_bool v | None => None end in
  let opt k := match map_get pairs k with Some v => match parse_bool v with Some b => b | None => false end | None => false end in
  match req (pkey 0), req (pkey 1), req (pkey 2) with
  | Some pre, Some uni, Some refc =>
      let comp := match map_get pairs (pkey 3) with
                  | Some v => match parse_unsigned 255 v with Some n => n | None => 0 end
                  | None => 0 end in
      if 2 <? comp then PPanic   (* CompressionType::from(u8) panics on an unknown value *)
      else POk {| o_preimage := pre; o_uniform := uni; o_refc := refc; o_compression := comp;
                  o_ordered := opt (pkey 4); o_multitree := opt (pkey 5);
                  o_append_only := opt (pkey 6); o_direct := opt (pkey 7) |}
  | _, _, _ => PNone
  end.

(* ---- metadata file ---- *)
Definition hex_digit (d : N) : N := if d <? 10 then 48 + d else 87 + d.
Definition hex_encode (bs : list N) : str := flat_map (fun b => [hex_digit (b / 16); hex_digit (b mod 16)]) bs.
Definition hex_val (c : N) : option N :=
  if (48 <=? c) && (c <=? 57) then Some (c - 48)
  else if (97 <=? c) && (c <=? 102) then Some (c - 87)
  else if (65 <=? c) && (c <=? 70) then Some (c - 55)
  else None.
Fixpoint hex_decode (s : str) : option (list N) :=
  match s with
  | [] => Some []
  | a :: b :: rest => match hex_val a, hex_val b, hex_decode rest with
                      | Some x, Some y, Some r => Some (x * 16 + y :: r)
                      | _, _, _ => None
                      end
  | _ => None
  end.

Definition nl : str := [10].
Definition eq_sign : str := [61].

Fixpoint col_lines (i : N) (cols : list copt) : list str :=
  match cols with
  | [] => []
  | o :: rest => (meta_prefix_col ++ dec i ++ eq_sign ++ col_as_string o) :: col_lines (i + 1) rest
  end.

(* Options::write_metadata_file_with_version *)
Definition metadata_text (version : N) (salt : list N) (cols : list copt) : str :=
  join nl ((meta_prefix_version ++ dec version) :: (meta_prefix_salt ++ hex_encode salt) :: col_lines 0 cols).

Record metadata := { m_version : N; m_salt : list N; m_cols : list copt }.

(* outcome classes of load_metadata_file: 0 ok, 5 Corruption, 2 InvalidConfiguration, 99 panic *)
Inductive mres := MOk (m : metadata) | MErr (class : N).

Definition strip_cr (l : str) : str :=
  match rev l with 13 :: r => rev r | _ => l end.

(* BufRead::lines: split at \n; a piece that was terminated by \n also loses a trailing \r; the
   last, unterminated piece is a line only if it is not empty *)
Definition lines_of (text : str) : list str :=
  let ps := split_on nl text in
  match rev ps with
  | [] => []
  | last :: r => map strip_cr (rev r) ++ (match last with [] => [] | _ => [last] end)
  end.

Definition key_version : str := removelast meta_prefix_version.   (* "version" *)
Definition key_salt : str := removelast meta_prefix_salt.         (* "salt" *)

Fixpoint parse_lines (ls : list str) (version : N) (salt : option (list N)) (cols : list copt) : mres :=
  match ls with
  | [] =>
      if version <? options_last_supported_version then MErr 2
      else match salt with
           | Some s => MOk {| m_version := version; m_salt := s; m_cols := rev cols |}
           | None => MErr 2
           end
  | l :: rest =>
      match split_on eq_sign l with
      | k :: v :: _ =>
          if str_eqb k key_version then
            match parse_unsigned 4294967295 v with
            | Some n => parse_lines rest n salt cols
            | None => MErr 5
            end
          else if str_eqb k key_salt then
            match hex_decode v with
            | Some bs => if N.of_nat (length bs) =? 32 then parse_lines rest version (Some bs) cols else MErr 99
            | None => MErr 5
            end
          else if starts_with meta_prefix_col k then
            match col_from_string v with
            | POk o => parse_lines rest version salt (o :: cols)
            | PNone => MErr 5
            | PPanic => MErr 99
            end
          else parse_lines rest version salt cols
      | _ => MErr 5
      end
  end.

Definition parse_metadata (text : str) : mres := parse_lines (lines_of text) 0 None [].

(* ---- validation at open (load_and_validate_metadata): 0 ok, 2 InvalidConfiguration (column count),
   6 IncompatibleColumnConfig ---- *)
Fixpoint cols_eqb (a b : list copt) : bool :=
  match a, b with
  | [], [] => true
  | x :: a', y :: b' => copt_eqb x y && cols_eqb a' b'
  | _, _ => false
  end.
Definition validate (stored requested : list copt) : N :=
  if negb (N.of_nat (length stored) =? N.of_nat (length requested)) then 2
  else if cols_eqb stored requested then 0 else 6.

(* ---- files of a column ---- *)
Definition underscore : str := [95].
Definition col_prefix (kind : str) (c : N) : str := kind ++ dec2 c ++ underscore.
Definition kinds : list str := [file_prefix_index; file_prefix_table; file_prefix_refcount].
(* TableId::is_file_name of the three table kinds: Column::drop_files deletes exactly these *)
Definition is_col_file (c : N) (name : str) : bool :=
  existsb (fun kind => starts_with (col_prefix kind c) name) kinds.
Definition dir := list (str * list N).   (* file name -> content *)
Definition drop_files (c : N) (d : dir) : dir := filter (fun f => negb (is_col_file c (fst f))) d.
Definition files_of (c : N) (d : dir) : dir := filter (fun f => is_col_file c (fst f)) d.
