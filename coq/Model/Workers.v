(* C15: the wait/signal protocol between a producer and a background worker (src/db.rs WaitCondvar:
   signal sets the flag under the mutex and notifies; wait loops until the flag is set and clears it;
   the worker loop is  while !shutdown || more_work { if !more_work { wait() }; more_work = stage() } ;
   shutdown() sets the shutdown mark and signals every worker). Every action below is one
   mutex-protected region of the code. [served] counts the units of work the stage has handled.
   Definitions only. *)
From Coq Require Import Arith List Bool.
Import ListNotations.

Inductive wpc := Idle | Waiting | Working | Done.

Record wk := {
  pending : nat;    (* units of work available to this stage *)
  flag : bool;      (* WaitCondvar::work *)
  pc : wpc;
  more : bool;      (* more_work *)
  sd : bool;        (* shutdown requested *)
  served : nat
}.

Definition winit : wk := {| pending := 0; flag := false; pc := Idle; more := false; sd := false; served := 0 |}.

(* the environment: whoever feeds this stage makes the work available and signals, in one region or
   in this order; shutdown marks and signals *)
Definition produce (s : wk) : wk :=
  {| pending := S (pending s); flag := true; pc := pc s; more := more s; sd := sd s; served := served s |}.
Definition shutdown (s : wk) : wk :=
  {| pending := pending s; flag := true; pc := pc s; more := more s; sd := true; served := served s |}.

(* the worker's next step; None = it cannot move (blocked in wait, or finished) *)
Definition wnext (s : wk) : option wk :=
  match pc s with
  | Idle =>
      if sd s && negb (more s) then Some {| pending := pending s; flag := flag s; pc := Done; more := more s; sd := sd s; served := served s |}
      else if more s then Some {| pending := pending s; flag := flag s; pc := Working; more := more s; sd := sd s; served := served s |}
      else Some {| pending := pending s; flag := flag s; pc := Waiting; more := more s; sd := sd s; served := served s |}
  | Waiting =>
      if flag s then Some {| pending := pending s; flag := false; pc := Working; more := more s; sd := sd s; served := served s |}
      else None
  | Working =>
      match pending s with
      | O => Some {| pending := 0; flag := flag s; pc := Idle; more := false; sd := sd s; served := served s |}
      | S n => Some {| pending := n; flag := flag s; pc := Idle; more := true; sd := sd s; served := S (served s) |}
      end
  | Done => None
  end.

Inductive act := AProduce | AShutdown | AWorker.

Definition astep (s : wk) (a : act) : option wk :=
  match a with
  | AProduce => Some (produce s)
  | AShutdown => Some (shutdown s)
  | AWorker => wnext s
  end.

(* a schedule: the worker simply does not move when it is scheduled while blocked *)
Fixpoint arun (s : wk) (l : list act) : wk :=
  match l with
  | [] => s
  | a :: r => arun (match astep s a with Some s' => s' | None => s end) r
  end.

Definition count_worker (l : list act) : nat := length (filter (fun a => match a with AWorker => true | _ => false end) l).
