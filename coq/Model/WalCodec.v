(* Byte-level model of the write-ahead log records of src/log.rs: serialisation
   (LogChange::flush_to_file), parsing (LogReader::next + the per-table payload readers of
   validate_plan) with CRC-32, and the replay acceptance of DbInner::enact_logs(validation) /
   replay_all_logs. Opcodes come from Gen/Consts.v. Definitions only. *)
From Coq Require Import NArith List Bool.
From PDB Require Import Gen.Consts.
Import ListNotations.
Open Scope N_scope.

Definition bytes := list N.

Fixpoint le (n : nat) (x : N) : bytes := match n with O => [] | S k => x mod 256 :: le k (x / 256) end.
Fixpoint unle (bs : bytes) : N := match bs with [] => 0 | b :: r => b + 256 * unle r end.

(* ---- CRC-32 (IEEE, reflected, as crc32fast computes it) ---- *)
Definition crc_poly : N := 3988292384.   (* 0xEDB88320 *)
Fixpoint crc_bits (n : nat) (c : N) : N :=
  match n with
  | O => c
  | S k => crc_bits k (if N.testbit c 0 then N.lxor (N.shiftr c 1) crc_poly else N.shiftr c 1)
  end.
Definition crc_byte (c b : N) : N := crc_bits 8 (N.lxor c b).
Definition crc32 (bs : bytes) : N := N.lxor (fold_left crc_byte bs 4294967295) 4294967295.

(* ---- actions ---- *)
Inductive action :=
| AIndex (table index mask : N) (entries : bytes)      (* 8 bytes per set bit of mask *)
| AValue (table index : N) (payload : bytes)           (* self-delimiting, see [value_len] *)
| ARefc (table index mask : N) (entries : bytes)       (* 16 bytes per set bit of mask *)
| ADropTable (table : N)
| ADropRc (table : N).

Fixpoint popcount (fuel : nat) (m : N) : nat :=
  match fuel with
  | O => O
  | S f => ((if N.testbit m 0 then 1 else 0) + popcount f (N.shiftr m 1))%nat
  end.

(* length of a value payload, from the addressed slot and the first two bytes (ValueTable::validate_plan) *)
Definition value_len (table index : N) (hd : bytes) : option nat :=
  if index =? 0 then Some 16%nat
  else match hd with
       | [a; b] =>
           if (a =? 255) && (b =? 255) then Some 10%nat
           else if (table mod 256 =? 255) &&
                   (((a =? 254) && (b =? 255)) || ((a =? 253) && (b =? 255)) || ((a =? 253) && (b =? 127)))
                then Some (N.to_nat table_multipart_entry_size)
                else Some (2 + N.to_nat ((a + 256 * b) mod 32768))%nat
       | _ => None
       end.

Definition ser_action (a : action) : bytes :=
  match a with
  | AIndex t i m es => log_insert_index :: le 2 t ++ le 8 i ++ le 8 m ++ es
  | AValue t i p => log_insert_value :: le 2 t ++ le 8 i ++ p
  | ARefc t i m es => log_insert_ref_count :: le 2 t ++ le 8 i ++ le 8 m ++ es
  | ADropTable t => log_drop_table :: le 2 t
  | ADropRc t => log_drop_ref_count_table :: le 2 t
  end.

Definition ser_body (id : N) (acts : list action) : bytes :=
  log_begin_record :: le 8 id ++ flat_map ser_action acts ++ [log_end_record].
Definition serialize (id : N) (acts : list action) : bytes :=
  let body := ser_body id acts in body ++ le 4 (crc32 body).

(* ---- parsing ---- *)
Inductive pres := PRecord (id : N) (acts : list action) (len : nat) | PEof | PInvalid.

Definition take (n : nat) (b : bytes) : option (bytes * bytes) :=
  if Nat.leb n (length b) then Some (firstn n b, skipn n b) else None.

(* one action; [None] = the bytes end inside it *)
Inductive ares := AOk (a : action) (rest : bytes) | AEnd (rest : bytes) | AEof | ABad.

Definition parse_action (ncols : N) (b : bytes) : ares :=
  match b with
  | [] => AEof
  | op :: r =>
      if op =? log_end_record then AEnd r
      else if (op =? log_insert_index) || (op =? log_insert_ref_count) then
        match take 18 r with
        | None => AEof
        | Some (h, r1) =>
            let t := unle (firstn 2 h) in let i := unle (firstn 8 (skipn 2 h)) in let m := unle (skipn 10 h) in
            let n := (popcount 64 m * (if op =? log_insert_index then 8 else 16))%nat in
            if ncols <=? t / 256 then ABad
            else if (op =? log_insert_index) && (2 ^ (t mod 256) * 64 <=? i) then ABad
            else if (op =? log_insert_ref_count) && (2 ^ (t mod 256) <=? i) then ABad
            else
            match take n r1 with
            | None => AEof
            | Some (es, r2) => AOk (if op =? log_insert_index then AIndex t i m es else ARefc t i m es) r2
            end
        end
      else if op =? log_insert_value then
        match take 10 r with
        | None => AEof
        | Some (h, r1) =>
            let t := unle (firstn 2 h) in let i := unle (skipn 2 h) in
            let hd := if i =? 0 then [] else firstn 2 r1 in
            if ncols <=? t / 256 then ABad
            else if negb (i =? 0) && Nat.ltb (length r1) 2 then AEof
            else if negb (i =? 0) && (unle hd mod 32768 =? 32767) && negb (unle hd =? 65535) then ABad
            else match value_len t i hd with
                 | None => AEof
                 | Some n => match take n r1 with
                             | None => AEof
                             | Some (p, r2) => AOk (AValue t i p) r2
                             end
                 end
        end
      else if (op =? log_drop_table) || (op =? log_drop_ref_count_table) then
        match take 2 r with
        | None => AEof
        | Some (h, r1) => AOk (if op =? log_drop_table then ADropTable (unle h) else ADropRc (unle h)) r1
        end
      else ABad
  end.

Fixpoint parse_actions (ncols : N) (fuel : nat) (b : bytes) (acc : list action) : option (option (list action * bytes)) :=
  (* None = invalid ; Some None = eof ; Some (Some (acts, rest-after-END)) *)
  match fuel with
  | O => Some None
  | S f =>
      match parse_action ncols b with
      | AOk a r => parse_actions ncols f r (a :: acc)
      | AEnd r => Some (Some (rev acc, r))
      | AEof => Some None
      | ABad => None
      end
  end.

Definition parse_record (ncols : N) (b : bytes) : pres :=
  match b with
  | [] => PEof
  | op :: r =>
      if negb (op =? log_begin_record) then PInvalid
      else match take 8 r with
           | None => PEof
           | Some (idb, r1) =>
               match parse_actions ncols (S (length r1)) r1 [] with
               | None => PInvalid
               | Some None => PEof
               | Some (Some (acts, r2)) =>
                   match take 4 r2 with
                   | None => PEof
                   | Some (c, _) =>
                       let blen := (length b - length r2)%nat in
                       if unle c =? crc32 (firstn blen b) then PRecord (unle idb) acts (blen + 4) else PInvalid
                   end
               end
           end
  end.

(* ---- replay acceptance ---- *)
(* records of one file until the first that is not a complete valid record *)
Fixpoint file_records (ncols : N) (fuel : nat) (b : bytes) : list (N * list action) * bool (* ended by an INVALID record *) :=
  match fuel with
  | O => ([], false)
  | S f =>
      match parse_record ncols b with
      | PRecord id acts len => let '(rs, bad) := file_records ncols f (skipn len b) in ((id, acts) :: rs, bad)
      | PEof => ([], false)
      | PInvalid => ([], true)
      end
  end.

(* DbInner::replay_all_logs over the files ordered by first record id: a record is applied iff it
   carries the next expected id; an out-of-sequence or invalid record ends the whole replay, a record
   cut short only ends its file *)
Fixpoint replay_recs (rs : list (N * list action)) (expect : N) : list N * option N (* next expected; None = stopped *) :=
  match rs with
  | [] => ([], Some expect)
  | (id, _) :: rs' =>
      if id =? expect then let '(l, e) := replay_recs rs' ((id + 1) mod 2 ^ 64) in (id :: l, e)
      else ([], None)
  end.
Fixpoint replay_files (files : list (list (N * list action) * bool)) (expect : N) : list N :=
  match files with
  | [] => []
  | (rs, bad) :: rest =>
      match replay_recs rs expect with
      | (l, Some e) => if bad then l else l ++ replay_files rest e
      | (l, None) => l
      end
  end.

(* Log::open: files shorter than a record header are discarded, the others ordered by the id in
   their first nine bytes *)
Definition first_id (b : bytes) : N := unle (firstn 8 (skipn 1 b)).
Fixpoint insert_by_id (b : bytes) (l : list bytes) : list bytes :=
  match l with
  | [] => [b]
  | x :: r => if first_id b <? first_id x then b :: l else x :: insert_by_id b r
  end.
Definition order_logs (logs : list bytes) : list bytes :=
  fold_left (fun acc b => insert_by_id b acc) (filter (fun b => Nat.leb 9 (length b)) logs) [].

(* DbInner::open: the first expected id is the one the first file announces in its header *)
Definition replay_ids (ncols : N) (logs : list bytes) : list N :=
  match order_logs logs with
  | [] => []
  | b :: _ => replay_files (map (fun b => file_records ncols (S (length b)) b) (order_logs logs)) (first_id b)
  end.
