(* Byte-level model of the write-ahead log records of src/log.rs: serialisation
   (LogChange::flush_to_file), parsing (LogReader::next + the per-table payload readers of
   validate_plan) with CRC-32, and the replay acceptance of DbInner::enact_logs(validation) /
   replay_all_logs. Opcodes come from Gen/Consts.v. Definitions only. *)
From Coq Require Import NArith List Bool.
From PDB Require Import Gen.Consts.
Import ListNotations.
Open Scope N_scope.

Definition bytes := list N.

Fixpoint le (n : nat) (x : N) : bytes := match n with O => [] | S k => x mod 256 :: le k (x / 256) end.
Fixpoint unle (bs : bytes) : N := match bs with [] => 0 | b :: r => b + 256 * unle r end.

(* ---- CRC-32 (IEEE, reflected, as crc32fast computes it) ---- *)
Definition crc_poly : N := 3988292384.   (* 0xEDB88320 *)
Fixpoint crc_bits (n : nat) (c : N) : N :=
  match n with
  | O => c
  | S k => crc_bits k (if N.testbit c 0 then N.lxor (N.shiftr c 1) crc_poly else N.shiftr c 1)
  end.
Definition crc_byte (c b : N) : N := crc_bits 8 (N.lxor c b).
Definition crc32 (bs : bytes) : N := N.lxor (fold_left crc_byte bs 4294967295) 4294967295.

(* ---- actions ---- *)
Inductive action :=
| AIndex (table index mask : N) (entries : bytes)      (* 8 bytes per set bit of mask *)
| AValue (table index : N) (payload : bytes)           (* self-delimiting, see [value_len] *)
| ARefc (table index mask : N) (entries : bytes)       (* 16 bytes per set bit of mask *)
| ADropTable (table : N)
| ADropRc (table : N).

Fixpoint popcount (fuel : nat) (m : N) : nat :=
  match fuel with
  | O => O
  | S f => ((if N.testbit m 0 then 1 else 0) + popcount f (N.shiftr m 1))%nat
  end.

(* length of a value payload, from the addressed slot and the first two bytes (ValueTable::validate_plan) *)
Definition value_len (table index : N) (hd : bytes) : option nat :=
  if index =? 0 then Some 16%nat
  else match hd with
       | [a; b] =>
           if (a =? 255) && (b =? 255) then Some 10%nat
           else if (table mod 256 =? 255) &&
                   (((a =? 254) && (b =? 255)) || ((a =? 253) && (b =? 255)) || ((a =? 253) && (b =? 127)))
                then Some (N.to_nat table_multipart_entry_size)
                else Some (2 + N.to_nat ((a + 256 * b) mod 32768))%nat
       | _ => None
       end.

Definition ser_action (a : action) : bytes :=
  match a with
  | AIndex t i m es => log_insert_index :: le 2 t ++ le 8 i ++ le 8 m ++ es
  | AValue t i p => log_insert_value :: le 2 t ++ le 8 i ++ p
  | ARefc t i m es => log_insert_ref_count :: le 2 t ++ le 8 i ++ le 8 m ++ es
  | ADropTable t => log_drop_table :: le 2 t
  | ADropRc t => log_drop_ref_count_table :: le 2 t
  end.

Definition ser_body (id : N) (acts : list action) : bytes :=
  log_begin_record :: le 8 id ++ flat_map ser_action acts ++ [log_end_record].
Definition serialize (id : N) (acts : list action) : bytes :=
  let body := ser_body id acts in body ++ le 4 (crc32 body).

(* ---- parsing ---- *)
(* PCut id: the header of record id was read and a reader error followed (bytes end, checksum mismatch,
   unknown code): the sequence check on id still happens, then this file ends *)
Inductive pres := PRecord (id : N) (acts : list action) (len : nat) | PEof | PInvalid | PCut (id : N).

Definition take (n : nat) (b : bytes) : option (bytes * bytes) :=
  if Nat.leb n (length b) then Some (firstn n b, skipn n b) else None.

(* one action. AEof: a reader error (the bytes end inside an action header, or an unknown code): the record
   is not applied and the rest of THIS file is ignored, the replay goes on with the next file.
   ABad: a validation error (bad table, index out of range, payload cut short, a record inside a record):
   every remaining log is discarded. *)
Inductive ares := AOk (a : action) (rest : bytes) | AEnd (rest : bytes) | AEof | ABad.

Definition parse_action (ncols : N) (b : bytes) : ares :=
  match b with
  | [] => AEof
  | op :: r =>
      if op =? log_end_record then AEnd r
      else if (op =? log_insert_index) || (op =? log_insert_ref_count) then
        match take 18 r with
        | None => AEof
        | Some (h, r1) =>
            let t := unle (firstn 2 h) in let i := unle (firstn 8 (skipn 2 h)) in let m := unle (skipn 10 h) in
            let n := (popcount 64 m * (if op =? log_insert_index then 8 else 16))%nat in
            if ncols <=? t / 256 then ABad
            else if (op =? log_insert_index) && (2 ^ (t mod 256) * index_validate_chunk_factor <=? i) then ABad
            else if (op =? log_insert_ref_count) && (2 ^ (t mod 256) * refcount_validate_chunk_factor <=? i) then ABad
            else
            match take n r1 with
            | None => ABad      (* the payload is read by validate_plan: running out of bytes there is a validation error *)
            | Some (es, r2) => AOk (if op =? log_insert_index then AIndex t i m es else ARefc t i m es) r2
            end
        end
      else if op =? log_insert_value then
        match take 10 r with
        | None => AEof
        | Some (h, r1) =>
            let t := unle (firstn 2 h) in let i := unle (skipn 2 h) in
            let hd := if i =? 0 then [] else firstn 2 r1 in
            if ncols <=? t / 256 then ABad
            else if negb (i =? 0) && Nat.ltb (length r1) 2 then ABad
            else if negb (i =? 0) && (unle hd mod 32768 =? 32767) && negb (unle hd =? 65535) then ABad
            else match value_len t i hd with
                 | None => ABad
                 | Some n => match take n r1 with
                             | None => ABad
                             | Some (p, r2) => AOk (AValue t i p) r2
                             end
                 end
        end
      else if (op =? log_drop_table) || (op =? log_drop_ref_count_table) then
        match take 2 r with
        | None => AEof
        | Some (h, r1) => AOk (if op =? log_drop_table then ADropTable (unle h) else ADropRc (unle h)) r1
        end
      else if op =? log_begin_record then ABad     (* a record inside a record: everything is discarded *)
      else AEof                                    (* an unknown code is a reader error: this file ends here *)
  end.

Fixpoint parse_actions (ncols : N) (fuel : nat) (b : bytes) (acc : list action) : option (option (list action * bytes)) :=
  (* None = invalid ; Some None = eof ; Some (Some (acts, rest-after-END)) *)
  match fuel with
  | O => Some None
  | S f =>
      match parse_action ncols b with
      | AOk a r => parse_actions ncols f r (a :: acc)
      | AEnd r => Some (Some (rev acc, r))
      | AEof => Some None
      | ABad => None
      end
  end.

Definition parse_record (ncols : N) (b : bytes) : pres :=
  match b with
  | [] => PEof
  | op :: r =>
      if negb (op =? log_begin_record) then
        (* Log::read_next -> LogReader::next: the reader first reads the action the byte announces (a 10-byte
           action header, a 4-byte checksum, a 2-byte table id); running out of bytes there is the end of
           the file, anything that can be read is a bad structure, an unknown code is one at once *)
        let need := if (op =? log_insert_index) || (op =? log_insert_value) || (op =? log_insert_ref_count) then Some 10%nat
                    else if op =? log_end_record then Some 4%nat
                    else if (op =? log_drop_table) || (op =? log_drop_ref_count_table) then Some 2%nat
                    else None in
        match need with
        | Some n => if Nat.ltb (length r) n then PEof else PInvalid
        | None => PInvalid
        end
      else match take 8 r with
           | None => PEof
           | Some (idb, r1) =>
               match parse_actions ncols (S (length r1)) r1 [] with
               | None => PInvalid
               | Some None => PCut (unle idb)
               | Some (Some (acts, r2)) =>
                   match take 4 r2 with
                   | None => PCut (unle idb)
                   | Some (c, _) =>
                       let blen := (length b - length r2)%nat in
                       (* a checksum mismatch is a reader error: the record is not applied and this file ends here *)
                       if unle c =? crc32 (firstn blen b) then PRecord (unle idb) acts (blen + 4) else PCut (unle idb)
                   end
               end
           end
  end.

(* ---- replay acceptance ---- *)
(* records of one file until the first that is not a complete valid record, and how the file ended *)
Inductive fend := FEof | FBad | FCut (id : N).
Fixpoint file_records (ncols : N) (fuel : nat) (b : bytes) : list (N * list action) * fend :=
  match fuel with
  | O => ([], FEof)
  | S f =>
      match parse_record ncols b with
      | PRecord id acts len => let '(rs, t) := file_records ncols f (skipn len b) in ((id, acts) :: rs, t)
      | PEof => ([], FEof)
      | PInvalid => ([], FBad)
      | PCut id => ([], FCut id)
      end
  end.

(* DbInner::replay_all_logs over the files ordered by first record id: a record is applied iff it
   carries the next expected id; an out-of-sequence record header (enact_logs compares the id of the
   header before it reads the rest) or a validation error ends the whole replay, a reader error (record
   cut short, checksum mismatch, unknown code) only ends its file *)
Fixpoint replay_recs (rs : list (N * list action)) (expect : N) : list N * option N (* next expected; None = stopped *) :=
  match rs with
  | [] => ([], Some expect)
  | (id, _) :: rs' =>
      if id =? expect then let '(l, e) := replay_recs rs' ((id + 1) mod 2 ^ 64) in (id :: l, e)
      else ([], None)
  end.
Definition goes_on (t : fend) (e : N) : bool :=
  match t with FEof => true | FBad => false | FCut id => id =? e end.
Fixpoint replay_files (files : list (list (N * list action) * fend)) (expect : N) : list N :=
  match files with
  | [] => []
  | (rs, t) :: rest =>
      match replay_recs rs expect with
      | (l, Some e) => if goes_on t e then l ++ replay_files rest e else l
      | (l, None) => l
      end
  end.

(* Log::open: files shorter than a record header are discarded, the others ordered by the id in
   their first nine bytes *)
Definition first_id (b : bytes) : N := unle (firstn 8 (skipn 1 b)).
Fixpoint insert_by_id (b : bytes) (l : list bytes) : list bytes :=
  match l with
  | [] => [b]
  | x :: r => if first_id b <? first_id x then b :: l else x :: insert_by_id b r
  end.
Definition order_logs (logs : list bytes) : list bytes :=
  fold_left (fun acc b => insert_by_id b acc) (filter (fun b => Nat.leb 9 (length b)) logs) [].

(* DbInner::open: the first expected id is the one the first file announces in its header *)
Definition replay_ids (ncols : N) (logs : list bytes) : list N :=
  match order_logs logs with
  | [] => []
  | b :: _ => replay_files (map (fun b => file_records ncols (S (length b)) b) (order_logs logs)) (first_id b)
  end.
