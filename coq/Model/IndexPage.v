(* Model of src/index.rs: entry packing and the two page-search functions.
   Definitions only; proofs live in Proofs/IndexPageProofs.v. *)
From Coq Require Import NArith List Bool.
From PDB Require Import Gen.Consts.
Import ListNotations.
Open Scope N_scope.

(* ---- model ---- *)
Definition m64 : N := 2^64.
(* Entry::address_bits: index_bits + CHUNK_ENTRIES_BITS + SIZE_TIERS_BITS (constants regenerated from the source) *)
Definition address_bits (bits : N) : N := bits + index_chunk_entries_bits + table_size_tiers_bits.
Definition pk_of (bits e : N) : N := N.shiftr e (address_bits bits).
Definition shl64 (x s : N) : N := (N.shiftl x s) mod m64.
Definition extract_key (bits kp : N) : N := N.shiftr (shl64 kp bits) (address_bits bits).
Definition entry_at (chunk : list N) (i : nat) : N := nth i chunk 0.

(* first index i with start <= i < start+fuel satisfying P *)
Fixpoint first_from (P : N -> bool) (chunk : list N) (start fuel : nat) : option nat :=
  match fuel with
  | O => None
  | S f => if P (entry_at chunk start) then Some start else first_from P chunk (S start) f
  end.

Definition answer (chunk : list N) (r : option nat) : N * nat :=
  match r with Some i => (entry_at chunk i, i) | None => (0, O) end.

Definition base_match (bits kp e : N) : bool :=
  (pk_of bits e =? extract_key bits kp) && negb (e =? 0).

Definition find_entry_base (bits kp : N) (start : nat) (chunk : list N) : N * nat :=
  answer chunk (first_from (base_match bits kp) chunk start (64 - start)%nat).

(* SSE2 path, lane level *)
Definition sse_shift (bits : N) : N := N.max 32 (address_bits bits).
Definition sse_pk (bits kp : N) : N := N.shiftr (shl64 kp bits) (sse_shift bits).
Definition lo32 (x : N) : N := x mod 2^32.
Definition hi32 (x : N) : N := (x / 2^32) mod 2^32.
(* __m128i as four 32-bit lanes *)
Definition load2 (e0 e1 : N) : list N := [lo32 e0; hi32 e0; lo32 e1; hi32 e1].
Definition srl_epi64 (v : list N) (s : N) : list N :=
  match v with
  | [a;b;c;d] => let x := N.shiftr (a + b * 2^32) s in let y := N.shiftr (c + d * 2^32) s in
                 [lo32 x; hi32 x; lo32 y; hi32 y]
  | _ => v end.
Definition shuffle_d8 (v : list N) : list N :=   (* imm8 = 0b11011000 *)
  match v with [a;b;c;d] => [a;c;b;d] | _ => v end.
Definition unpacklo_epi64 (v w : list N) : list N :=
  match v, w with [a;b;_;_], [c;d;_;_] => [a;b;c;d] | _, _ => v end.
Definition cmpeq_epi32 (v : list N) (t : N) : list bool := map (fun x => x =? t) v.
Definition movemask_epi8 (bs : list bool) : N :=
  match bs with
  | [b0;b1;b2;b3] => (if b0 then 15 else 0) + (if b1 then 240 else 0) + (if b2 then 3840 else 0) + (if b3 then 61440 else 0)
  | _ => 0 end.
Fixpoint ctz_pos (p : positive) : nat := match p with xO q => S (ctz_pos q) | _ => O end.
Definition trailing_zeros (n : N) : nat := match n with N0 => 32%nat | Npos p => ctz_pos p end.

Definition group_cmp (bits kp : N) (chunk : list N) (i : nat) : N :=
  let s := sse_shift bits in
  let first_two := shuffle_d8 (srl_epi64 (load2 (entry_at chunk i) (entry_at chunk (i+1))) s) in
  let last_two := shuffle_d8 (srl_epi64 (load2 (entry_at chunk (i+2)) (entry_at chunk (i+3))) s) in
  let current := unpacklo_epi64 first_two last_two in
  movemask_epi8 (cmpeq_epi32 current (lo32 (sse_pk bits kp))).

Fixpoint sse_loop (bits kp : N) (chunk : list N) (i skip groups : nat) : N * nat :=
  match groups with
  | O => (0, O)
  | S g =>
      let cmp := N.shiftr (group_cmp bits kp chunk i) (N.of_nat (skip * 4)) in
      if cmp =? 0 then sse_loop bits kp chunk (i + 4) 0 g
      else let position := (i + skip + Nat.div (trailing_zeros cmp) 4)%nat in
           (entry_at chunk position, position)
  end.

Definition find_entry_sse2 (bits kp : N) (start : nat) (chunk : list N) : N * nat :=
  if sse_pk bits kp =? 0 then find_entry_base bits kp start chunk
  else let i := (Nat.div start 4 * 4)%nat in
       sse_loop bits kp chunk i (start - i)%nat (Nat.div (64 - i)%nat 4).

(* spec of what the fast path compares *)
Definition lane_of (bits e : N) : N := lo32 (N.shiftr e (sse_shift bits)).
Definition fast_match (bits kp e : N) : bool :=
  if sse_pk bits kp =? 0 then base_match bits kp e else lane_of bits e =? sse_pk bits kp.
Definition find_spec (bits kp : N) (start : nat) (chunk : list N) : N * nat :=
  answer chunk (first_from (fast_match bits kp) chunk start (64 - start)%nat).

(* ---- entry packing and key recovery (index.rs Entry::new / address / partial_key,
   IndexTable::chunk_index / recover_key_prefix) ---- *)
Definition entry_new (bits addr pk : N) : N := N.lor (shl64 pk (address_bits bits)) addr.
Definition entry_address (bits e : N) : N := N.land e (2 ^ address_bits bits - 1).
Definition chunk_index (bits kp : N) : N := N.shiftr kp (index_entry_bits - bits).
(* restores the bits of the key that page number and partial key determine *)
Definition recover_key_prefix (bits chunk e : N) : N :=
  let k := 64 - address_bits bits in
  N.lor (shl64 chunk (64 - bits)) (shl64 (pk_of bits e) (64 - k - bits)).
