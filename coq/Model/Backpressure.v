(* C15, the back-pressure wait of the enact stage (src/db.rs enact_logs: while !shutdown && too many
   logs await cleanup { cleanup_queue_wait.wait() }) against the cleanup worker, which signals that
   wait at the end of every pass, and against shutdown(). [fixed] says whether shutdown() also signals
   cleanup_queue_wait (it does since the repair of finding F21). Every action is one lock-protected
   region. Definitions only. *)
From Coq Require Import Arith List Bool.
Import ListNotations.

Inductive epcT := ERun | EBlocked.
Inductive cpcT := CIdle | CWaiting | CStart | CClean | CDone.

Record bp := {
  dirty : nat;      (* log files waiting for cleanup *)
  bflag : bool;     (* cleanup_queue_wait *)
  cflag : bool;     (* cleanup_worker_wait *)
  cmore : bool;     (* the cleanup worker's more_work *)
  snap : nat;       (* what the running cleanup pass counted at its start *)
  cpc : cpcT; epc : epcT;
  sd : bool;        (* shutdown requested *)
  todo : nat        (* records the commit worker still has to enact *)
}.

Definition maxl : nat := 2.
Definition too_many (s : bp) (d : nat) : bool := negb (sd s) && (maxl <? d).

Inductive bact := AEnact | AWake | ACIdle | ACWake | ACStart | ACEnd | AShutdown.

Definition bstep (fixed : bool) (s : bp) (a : bact) : option bp :=
  match a with
  | AEnact =>
      match epc s, todo s with
      | ERun, S n => Some {| dirty := S (dirty s); bflag := bflag s; cflag := true; cmore := cmore s; snap := snap s; cpc := cpc s;
                             epc := if too_many s (S (dirty s)) then EBlocked else ERun; sd := sd s; todo := n |}
      | _, _ => None
      end
  | AWake =>
      match epc s with
      | EBlocked => if bflag s then Some {| dirty := dirty s; bflag := false; cflag := cflag s; cmore := cmore s; snap := snap s; cpc := cpc s;
                                            epc := if too_many s (dirty s) then EBlocked else ERun; sd := sd s; todo := todo s |}
                    else None
      | _ => None
      end
  | ACIdle =>
      match cpc s with
      | CIdle => Some {| dirty := dirty s; bflag := bflag s; cflag := cflag s; cmore := cmore s; snap := snap s;
                         cpc := if sd s && negb (cmore s) then CDone else if cmore s then CStart else CWaiting;
                         epc := epc s; sd := sd s; todo := todo s |}
      | _ => None
      end
  | ACWake =>
      match cpc s with
      | CWaiting => if cflag s then Some {| dirty := dirty s; bflag := bflag s; cflag := false; cmore := cmore s; snap := snap s; cpc := CStart;
                                           epc := epc s; sd := sd s; todo := todo s |}
                    else None
      | _ => None
      end
  | ACStart =>
      match cpc s with
      | CStart => Some {| dirty := dirty s; bflag := bflag s; cflag := cflag s; cmore := cmore s; snap := dirty s; cpc := CClean;
                          epc := epc s; sd := sd s; todo := todo s |}
      | _ => None
      end
  | ACEnd =>
      match cpc s with
      | CClean => Some {| dirty := dirty s - snap s; bflag := true; cflag := cflag s; cmore := 0 <? snap s; snap := 0; cpc := CIdle;
                          epc := epc s; sd := sd s; todo := todo s |}
      | _ => None
      end
  | AShutdown =>
      Some {| dirty := dirty s; bflag := fixed || bflag s; cflag := true; cmore := cmore s; snap := snap s; cpc := cpc s;
              epc := epc s; sd := true; todo := todo s |}
  end.

Fixpoint brun (fixed : bool) (s : bp) (l : list bact) : bp :=
  match l with
  | [] => s
  | a :: r => brun fixed (match bstep fixed s a with Some s' => s' | None => s end) r
  end.

Definition binit (n : nat) : bp :=
  {| dirty := 0; bflag := false; cflag := false; cmore := true; snap := 0; cpc := CIdle; epc := ERun; sd := false; todo := n |}.
