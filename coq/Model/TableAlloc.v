(* C14 (mechanism): the slot allocator of a value table (src/table.rs next_free / clear_slot /
   write_multipart): allocation pops the free list before it extends the file, freeing pushes; a
   multi-part value takes its slots one by one and then links them. The operations work on the same
   raw view of a table that the checker of Model/StorageCheck.v judges. Definitions only. *)
From Coq Require Import NArith List Bool Arith.
From PDB Require Import Model.StorageCheck.
Import ListNotations.
Open Scope N_scope.

Fixpoint set_nth {A} (l : list A) (n : nat) (x : A) : list A :=
  match l, n with
  | [], _ => []
  | _ :: r, O => x :: r
  | a :: r, S n' => a :: set_nth r n' x
  end.

Definition set_slot (d : tdump) (i : N) (s : rslot) : tdump :=
  {| filled := filled d; free_head := free_head d; slots := set_nth (slots d) (N.to_nat (i - 1)) s |}.

(* ValueTable::next_free: the head of the free list if there is one, otherwise the slot at the fill
   mark. The slot is handed out as a complete entry (RSize). *)
Definition alloc1 (d : tdump) : tdump * N :=
  match slot_at d (free_head d) with
  | Some (RFree nx) =>
      ({| filled := filled d; free_head := nx; slots := set_nth (slots d) (N.to_nat (free_head d - 1)) RSize |}, free_head d)
  | _ =>
      ({| filled := filled d + 1; free_head := free_head d; slots := slots d ++ [RSize] |}, filled d)
  end.

(* ValueTable::clear_slot: the slot becomes a tombstone pointing at the old head, and the new head *)
Definition free1 (d : tdump) (i : N) : tdump :=
  {| filled := filled d; free_head := i; slots := set_nth (slots d) (N.to_nat (i - 1)) (RFree (free_head d)) |}.

(* a chain of k >= 2 parts: k allocations, then the links (head -> part -> ... -> last) *)
Fixpoint alloc_n (n : nat) (d : tdump) : tdump * list N :=
  match n with
  | O => (d, [])
  | S n' => let '(d1, i) := alloc1 d in let '(d2, is) := alloc_n n' d1 in (d2, i :: is)
  end.

Fixpoint link_parts (d : tdump) (is : list N) : tdump :=
  match is with
  | [] => d
  | [last] => set_slot d last RSize
  | i :: ((nx :: _) as r) => link_parts (set_slot d i (RPart nx)) r
  end.

Definition link_chain (d : tdump) (is : list N) : tdump :=
  match is with
  | [] => d
  | [i] => set_slot d i RSize
  | i :: ((nx :: _) as r) => link_parts (set_slot d i (RHead nx)) r
  end.

Definition alloc_chain (k : nat) (d : tdump) : tdump * list N :=
  let '(d1, is) := alloc_n k d in (link_chain d1 is, is).

(* freeing a value: every slot of its chain is cleared (ValueTable::clear_chain) *)
Definition free_chain (d : tdump) (is : list N) : tdump := fold_left free1 is d.

(* ---- histories of one table: values are stored (in k+1 slots) and removed (the j-th live value, oldest first) ---- *)
(* ValueTable::overwrite_chain on an existing chain (a value is replaced by one that needs k+1 slots): the
   slots of the old chain are reused in order; a longer value takes further slots from the allocator and
   links them behind the old last slot, a shorter one ends in its (k+1)-th slot and the rest of the old chain is
   cleared *)
Definition areplace (d : tdump) (c : list N) (k : nat) : tdump * list N :=
  if Nat.leb (length c) (S k) then
    let '(d1, extra) := alloc_n (S k - length c) d in
    match extra with
    | [] => (d1, c)
    | _ => match c with
           | [i] => (link_chain d1 (i :: extra), i :: extra)
           | _ => (link_parts d1 (last c 0 :: extra), c ++ extra)
           end
    end
  else
    let keep := firstn (S k) c in
    let d1 := set_slot d (last keep 0) RSize in
    (fold_left free1 (skipn (S k) c) d1, keep).

Inductive aop := AStore (k : nat) | ARemove (j : nat) | AReplace (j k : nat).
Fixpoint remove_nth {A} (n : nat) (l : list A) : list A :=
  match l, n with
  | [], _ => []
  | _ :: r, O => r
  | a :: r, S n' => a :: remove_nth n' r
  end.
Definition astep (st : tdump * list (list N)) (o : aop) : tdump * list (list N) :=
  let '(d, live) := st in
  match o with
  | AStore k => let '(d', l) := alloc_chain (S k) d in (d', live ++ [l])
  | ARemove j => match nth_error live j with
                 | Some c => (free_chain d c, remove_nth j live)
                 | None => (d, live)
                 end
  | AReplace j k => match nth_error live j with
                    | Some c => let '(d', c') := areplace d c k in (d', firstn j live ++ c' :: skipn (S j) live)
                    | None => (d, live)
                    end
  end.
(* a table file right after its creation: the header slot only *)
Definition empty_table : tdump := {| filled := 1; free_head := 0; slots := [] |}.
