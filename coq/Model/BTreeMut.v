(* C04 (mutation): how src/btree/node.rs and btree.rs change the on-disk tree when one key is set or
   removed: descent driven by the recorded depth, insertion into a node, split of a full node at the
   median (the three cases of Node::insert / insert_node are the three positions of the new key relative
   to the median), removal with the predecessor taken from the left subtree (remove_last), rebalancing
   by borrowing from the left sibling, else from the right one, else merging, and the root gaining or
   losing a level. A node holds at most ORDER keys; a node other than the root that falls below ORDER/2
   is rebalanced by its parent. Values are not modelled (C06); keys are numbers. Definitions only. *)
From Coq Require Import NArith List Bool Arith.
From PDB Require Import Gen.Consts.
Import ListNotations.
Open Scope N_scope.

Inductive btn := BT (ks : list N) (cs : list btn).      (* a leaf has no children, an inner node one more child than keys *)
Definition keys_of (t : btn) : list N := match t with BT ks _ => ks end.
Definition kids_of (t : btn) : list btn := match t with BT _ cs => cs end.

Definition order : nat := N.to_nat btree_order.
Definition middle : nat := Nat.div order 2.

(* Node::position: the first separator that is not smaller than the key, and whether it is the key *)
Fixpoint position (k : N) (ks : list N) (i : nat) : bool * nat :=
  match ks with
  | [] => (false, i)
  | x :: r => if k <? x then (false, i) else if k =? x then (true, i) else position k r (S i)
  end.

Definition insert_at {A} (i : nat) (x : A) (l : list A) : list A := firstn i l ++ x :: skipn i l.
Definition remove_at {A} (i : nat) (l : list A) : list A := firstn i l ++ skipn (S i) l.
Definition set_at {A} (i : nat) (x : A) (l : list A) : list A := firstn i l ++ x :: skipn (S i) l.
Definition empty_node : btn := BT [] [].
Definition child_at (cs : list btn) (i : nat) : btn := nth i cs empty_node.

(* a node that got one key too many is split at the median: left part, the median key, right part *)
Definition split_if_full (ks : list N) (cs : list btn) : btn * option (N * btn) :=
  if Nat.ltb order (length ks) then
    (BT (firstn middle ks) (firstn (S middle) cs),
     Some (nth middle ks 0, BT (skipn (S middle) ks) (skipn (S middle) cs)))
  else (BT ks cs, None).

(* Node::change for Operation::Set: [depth] levels below this node *)
Fixpoint ins (depth : nat) (k : N) (t : btn) : btn * option (N * btn) :=
  match t with
  | BT ks cs =>
      let '(at_, i) := position k ks 0 in
      if at_ then (t, None)          (* the value is replaced, the tree keeps its shape *)
      else
        match depth with
        | O => split_if_full (insert_at i k ks) []
        | S d =>
            let '(c', up) := ins d k (child_at cs i) in
            match up with
            | None => (BT ks (set_at i c' cs), None)
            | Some (sep, rgt) => split_if_full (insert_at i sep ks) (insert_at (S i) rgt (set_at i c' cs))
            end
        end
  end.

Definition need_rebalance (ks : list N) : bool := Nat.ltb (length ks) middle.
Definition rich (t : btn) : bool := Nat.ltb middle (length (keys_of t)).      (* has_separator(middle): can give one away *)

(* Node::rebalance: the child [at] fell below the minimum *)
Definition rebalance (ks : list N) (cs : list btn) (at_ : nat) : btn :=
  let nchild := S (length ks) in
  if (Nat.ltb 0 at_) && rich (child_at cs (at_ - 1)) then
    (* borrow the last key (and child) of the left sibling through the parent *)
    let l := child_at cs (at_ - 1) in
    let r := child_at cs at_ in
    let l' := BT (removelast (keys_of l)) (removelast (kids_of l)) in
    let r' := BT (nth (at_ - 1) ks 0 :: keys_of r) (match kids_of l with [] => kids_of r | _ => last (kids_of l) empty_node :: kids_of r end) in
    BT (set_at (at_ - 1) (last (keys_of l) 0) ks) (set_at at_ r' (set_at (at_ - 1) l' cs))
  else if (Nat.ltb (S at_) nchild) && rich (child_at cs (S at_)) then
    (* borrow the first key (and child) of the right sibling *)
    let l := child_at cs at_ in
    let r := child_at cs (S at_) in
    let r' := BT (tl (keys_of r)) (tl (kids_of r)) in
    let l' := BT (keys_of l ++ [nth at_ ks 0]) (match kids_of r with [] => kids_of l | c :: _ => kids_of l ++ [c] end) in
    BT (set_at at_ (hd 0 (keys_of r)) ks) (set_at (S at_) r' (set_at at_ l' cs))
  else
    (* merge with a sibling: the last child with its left neighbour, any other with its right one *)
    let a := if Nat.eqb (S at_) nchild then (at_ - 1)%nat else at_ in
    let l := child_at cs a in
    let r := child_at cs (S a) in
    let m := BT (keys_of l ++ nth a ks 0 :: keys_of r) (kids_of l ++ kids_of r) in
    BT (remove_at a ks) (set_at a m (remove_at (S a) cs)).

(* Node::remove_last: the largest key of the subtree is taken out *)
Fixpoint remove_last (depth : nat) (t : btn) : btn * bool * option N :=
  match t with
  | BT ks cs =>
      match ks with
      | [] => (t, false, None)
      | _ =>
          match depth with
          | O => (BT (removelast ks) [], need_rebalance (removelast ks), Some (last ks 0))
          | S d =>
              let i := length ks in
              let '(c', need, sep) := remove_last d (child_at cs i) in
              let cs' := set_at i c' cs in
              if need then
                let t' := rebalance ks cs' i in (t', need_rebalance (keys_of t'), sep)
              else (BT ks cs', false, sep)
          end
      end
  end.

(* Node::change for a removal that takes the key out *)
Fixpoint rem (depth : nat) (k : N) (t : btn) : btn * bool :=
  match t with
  | BT ks cs =>
      let '(at_, i) := position k ks 0 in
      match depth with
      | O => if at_ then (BT (remove_at i ks) [], need_rebalance (remove_at i ks)) else (t, false)
      | S d =>
          if at_ then
            let '(c', need, sep) := remove_last d (child_at cs i) in
            let ks' := match sep with Some s => set_at i s ks | None => remove_at i ks end in
            let cs' := set_at i c' cs in
            let t' := if need then rebalance ks' cs' i else BT ks' cs' in
            (t', need_rebalance (keys_of t'))
          else
            let '(c', need) := rem d k (child_at cs i) in
            let cs' := set_at i c' cs in
            if need then let t' := rebalance ks cs' i in (t', need_rebalance (keys_of t')) else (BT ks cs', false)
      end
  end.

(* BTree::write_sorted_changes for one change: the root gains a level when it splits and loses one when it is
   left without keys above a single child *)
Definition bt_insert (st : nat * btn) (k : N) : nat * btn :=
  let '(d, t) := st in
  match ins d k t with
  | (t', None) => (d, t')
  | (t', Some (sep, rgt)) => (S d, BT [sep] [t'; rgt])
  end.
Definition bt_remove (st : nat * btn) (k : N) : nat * btn :=
  let '(d, t) := st in
  let '(t', need) := rem d k t in
  if need then
    match t', d with
    | BT [] (c :: _), S d' => (d', c)
    | _, _ => (d, t')
    end
  else (d, t').

Inductive bop := BSet (k : N) | BDel (k : N).
Definition bstep (st : nat * btn) (o : bop) : nat * btn :=
  match o with BSet k => bt_insert st k | BDel k => bt_remove st k end.
Definition binit : nat * btn := (O, empty_node).

Fixpoint inorder_n (fuel : nat) (t : btn) : list N :=
  match fuel with
  | O => keys_of t
  | S f =>
      match t with
      | BT ks [] => ks
      | BT ks (c :: cs) =>
          inorder_n f c ++ flat_map (fun kc => fst kc :: inorder_n f (snd kc)) (combine ks cs)
      end
  end.
