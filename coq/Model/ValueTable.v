(* Model of the value-table entry layout of src/table.rs: the four slot forms, their byte codec,
   the chain writer (ValueTable::overwrite_chain for a fresh chain) and the chain reader
   (ValueTable::for_parts), and the size-tier choice (Column::compress). Definitions only.
   Bytes are N < 256; all constants come from Gen/Consts.v, i.e. from the Rust source. *)
From Coq Require Import NArith List Bool.
From PDB Require Import Gen.Consts.
Import ListNotations.
Open Scope N_scope.

Definition bytes := list N.

(* ---- little-endian integers ---- *)
Fixpoint le_encode (n : nat) (x : N) : bytes :=
  match n with O => [] | S k => x mod 256 :: le_encode k (x / 256) end.
Fixpoint le_decode (bs : bytes) : N :=
  match bs with [] => 0 | b :: rest => b + 256 * le_decode rest end.

(* ---- structured slots ---- *)
Inductive slot :=
| SFull (compressed : bool) (body : bytes)          (* [size:15|c:1][body]: a complete entry or the last part *)
| SHead (compressed : bool) (next : N) (body : bytes) (* [fd ff | fd 7f][next:8][body]: first part of a chain *)
| SPart (next : N) (body : bytes)                   (* [fe ff][next:8][body]: middle part *)
| STomb (next : N).                                 (* [ff ff][next:8]: freed slot *)

Definition size_header (len : N) (compressed : bool) : bytes :=
  le_encode 2 (if compressed then len + table_compressed_mask else len).

Definition encode_slot (s : slot) : bytes :=
  match s with
  | SFull c body => size_header (N.of_nat (length body)) c ++ body
  | SHead c next body => (if c then table_multihead_compressed else table_multihead) ++ le_encode 8 next ++ body
  | SPart next body => table_multipart ++ le_encode 8 next ++ body
  | STomb next => table_tombstone ++ le_encode 8 next
  end.

Definition bytes_eqb (a b : bytes) : bool :=
  (N.of_nat (length a) =? N.of_nat (length b)) && forallb (fun p => fst p =? snd p) (combine a b).

(* reading a slot of a table with entry size [es] ([mp]: the multipart tier), as for_parts /
   enact_plan classify it from the first two bytes *)
Definition decode_slot (mp : bool) (es : N) (raw : bytes) : option slot :=
  let hd2 := firstn 2 raw in
  let rest := skipn 2 raw in
  if bytes_eqb hd2 table_tombstone then Some (STomb (le_decode (firstn 8 rest)))
  else if mp && bytes_eqb hd2 table_multipart then
    Some (SPart (le_decode (firstn 8 rest)) (firstn (N.to_nat es - 10)%nat (skipn 8 rest)))
  else if mp && (bytes_eqb hd2 table_multihead || bytes_eqb hd2 table_multihead_compressed) then
    Some (SHead (bytes_eqb hd2 table_multihead_compressed) (le_decode (firstn 8 rest))
                (firstn (N.to_nat es - 10)%nat (skipn 8 rest)))
  else
    let sz := le_decode hd2 in
    let c := table_compressed_mask <=? sz in
    let len := if c then sz - table_compressed_mask else sz in
    Some (SFull c (firstn (N.to_nat len) rest)).

(* ---- chains ---- *)
(* ValueTable::overwrite_chain writing a NEW chain into the slots [idxs] (as next_free hands them
   out). [prefix] = reference counter and key tail, present only in the first part. *)
Fixpoint write_chain (fuel : nat) (es : N) (first : bool) (compressed : bool) (prefix payload : bytes)
         (idxs : list N) : list (N * slot) :=
  match fuel with
  | O => []
  | S f =>
      match idxs with
      | [] => []
      | idx :: more =>
          let remainder := N.of_nat (length prefix + length payload)%nat in
          let free := es - table_size_size in
          if free <? remainder then
            let next := hd 0 more in
            let take := (N.to_nat (free - table_index_size) - length prefix)%nat in
            let body := prefix ++ firstn take payload in
            (idx, if first then SHead compressed next body else SPart next body)
            :: write_chain f es false compressed [] (skipn take payload) more
          else [(idx, SFull compressed (prefix ++ payload))]
      end
  end.

Definition tbl := N -> option slot.
Definition tbl_put (t : tbl) (ws : list (N * slot)) : tbl :=
  fold_left (fun t w => fun i => if i =? fst w then Some (snd w) else t i) ws t.

(* ValueTable::for_parts: collect the bodies of the chain starting at [idx]; returns the
   compressed flag of the first part and the concatenated body (counter + key tail + value) *)
Fixpoint read_chain (fuel : nat) (mp : bool) (t : tbl) (idx : N) (first : bool) : option (bool * bytes) :=
  match fuel with
  | O => None
  | S f =>
      match t idx with
      | None => None
      | Some (STomb _) => None
      | Some (SFull c body) => if mp && first then None else Some (c, body)
      | Some (SHead c next body) =>
          if first then
            match read_chain f mp t next false with
            | Some (_, rest) => Some (c, body ++ rest)
            | None => None
            end
          else None
      | Some (SPart next body) =>
          if first then None
          else match read_chain f mp t next false with
               | Some (_, rest) => Some (false, body ++ rest)
               | None => None
               end
      end
  end.

(* number of slots a chain needs *)
Fixpoint parts_needed (fuel : nat) (es : N) (plen len : N) : nat :=
  match fuel with
  | O => O
  | S f => if (es - table_size_size) <? plen + len
           then S (parts_needed f es 0 (plen + len - (es - table_size_size - table_index_size)))
           else 1%nat
  end.

(* ---- size tiers (Column::compress + ValueTable::value_size) ---- *)
Definition prefix_size (rc_counted keyed : bool) : N :=
  (if rc_counted then table_refs_size else 0) + (if keyed then table_partial_size else 0).
Definition value_size (es : N) (rc_counted keyed : bool) : option N :=
  let base := es - table_size_size - (if rc_counted then table_refs_size else 0) in
  let k := if keyed then table_partial_size else 0 in
  if base <? k then None else Some (base - k).

Fixpoint first_tier (sizes : list N) (i : N) (rc_counted keyed : bool) (len : N) : option N :=
  match sizes with
  | [] => None
  | es :: rest => match value_size es rc_counted keyed with
                  | Some s => if len <=? s then Some i else first_tier rest (i + 1) rc_counted keyed len
                  | None => first_tier rest (i + 1) rc_counted keyed len
                  end
  end.
Definition select_tier (rc_counted keyed : bool) (len : N) : N :=
  match first_tier column_sizes 0 rc_counted keyed len with
  | Some t => t
  | None => N.of_nat (length column_sizes)      (* the multipart tier *)
  end.
Definition tier_entry_size (t : N) : N := nth (N.to_nat t) column_sizes table_multipart_entry_size.
