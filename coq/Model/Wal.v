(* W-level model: the write-ahead-log discipline of src/log.rs + src/db.rs as an abstract protocol.
   Records are lists of ABSOLUTE cell writes (a cell = one table location: an index chunk entry, a
   value slot, a table header). Tables have a page-cache image C and a durable image D; [dirty l]
   over-approximates the cells whose durable content is unknown after a power loss. The log keeps
   the records [t, length recs); the first [s] of them are durable (fdatasync). Definitions only. *)
From Coq Require Import Arith NArith List Bool.
Import ListNotations.
Open Scope N_scope.

Definition cell := N.
Definition base := N -> cell.
Record record := { ws : list (N * cell) }.
Definition upd (T : base) l c : base := fun x => if x =? l then c else T x.
Definition apply_ws (w : list (N * cell)) (T : base) : base := fold_left (fun T lc => upd T (fst lc) (snd lc)) w T.
Definition apply_recs (rs : list record) (T : base) : base := fold_left (fun T r => apply_ws (ws r) T) rs T.
Definition wr (w : list (N * cell)) (l : N) : bool := existsb (fun lc => fst lc =? l) w.
Definition wrs (rs : list record) (l : N) : bool := existsb (fun r => wr (ws r) l) rs.
Definition sub {A} (xs : list A) (i j : nat) : list A := firstn (j - i) (skipn i xs).

Record wst := {
  recs : list record;   (* every record appended so far (complete in the page cache) *)
  s : nat;              (* records [0,s) are durable in the log (fdatasync)            *)
  st : nat;             (* records [0,st) fully stored into C; record st in progress    *)
  k : nat;              (* number of writes of record st already stored                 *)
  fl : nat;             (* value of st at the last flush of the tables                  *)
  t : nat;              (* records [0,t) have been truncated away from the log          *)
  C : base; D : base; dirty : N -> bool
}.

Inductive step : wst -> wst -> Prop :=
| Append w r : step w {| recs := recs w ++ [r]; s := s w; st := st w; k := k w; fl := fl w; t := t w; C := C w; D := D w; dirty := dirty w |}
| SyncLog w : step w {| recs := recs w; s := length (recs w); st := st w; k := k w; fl := fl w; t := t w; C := C w; D := D w; dirty := dirty w |}
| Store w r l c : (st w < s w)%nat ->                                   (* D1: only synced records are applied *)
    nth_error (recs w) (st w) = Some r -> nth_error (ws r) (k w) = Some (l, c) ->
    step w {| recs := recs w; s := s w; st := st w; k := S (k w); fl := fl w; t := t w;
              C := upd (C w) l c; D := D w; dirty := fun x => (x =? l) || dirty w x |}
| Finish w r : (st w < s w)%nat -> nth_error (recs w) (st w) = Some r -> k w = length (ws r) ->
    step w {| recs := recs w; s := s w; st := S (st w); k := O; fl := fl w; t := t w; C := C w; D := D w; dirty := dirty w |}
| Flush w :                                                              (* msync may run while a record is half applied (cleanup worker vs commit worker) *)
    step w {| recs := recs w; s := s w; st := st w; k := k w; fl := st w; t := t w; C := C w; D := C w; dirty := fun _ => false |}
| Truncate w n : (t w <= n <= fl w)%nat ->                               (* D2: only logs whose records were stored before the last flush, oldest first *)
    step w {| recs := recs w; s := s w; st := st w; k := k w; fl := fl w; t := n; C := C w; D := D w; dirty := dirty w |}.

Definition init (T0 : base) : wst :=
  {| recs := []; s := O; st := O; k := O; fl := O; t := O; C := T0; D := T0; dirty := fun _ => false |}.

Inductive reach (T0 : base) : wst -> Prop :=
| R0 : reach T0 (init T0)
| RS w w' : reach T0 w -> step w w' -> reach T0 w'.


(* ---- executable form of the protocol, used to accept event traces observed on the implementation ---- *)
Inductive wev :=
| EAppend (r : record)     (* a complete record written to the log file (page cache) *)
| ESyncLog                 (* fdatasync of the log *)
| EStore                   (* the next write of the record being enacted reaches the table's mapping *)
| EFinish                  (* the record being enacted is done *)
| EFlush                   (* every table mapping flushed (msync) *)
| ETruncate (n : nat).     (* log files holding the records below n truncated / deleted *)

Definition wstep (w : wst) (e : wev) : option wst :=
  match e with
  | EAppend r => Some {| recs := recs w ++ [r]; s := s w; st := st w; k := k w; fl := fl w; t := t w; C := C w; D := D w; dirty := dirty w |}
  | ESyncLog => Some {| recs := recs w; s := length (recs w); st := st w; k := k w; fl := fl w; t := t w; C := C w; D := D w; dirty := dirty w |}
  | EStore =>
      if Nat.ltb (st w) (s w) then
        match nth_error (recs w) (st w) with
        | Some r => match nth_error (ws r) (k w) with
                    | Some (l, c) => Some {| recs := recs w; s := s w; st := st w; k := S (k w); fl := fl w; t := t w;
                                             C := upd (C w) l c; D := D w; dirty := fun x => (x =? l) || dirty w x |}
                    | None => None
                    end
        | None => None
        end
      else None
  | EFinish =>
      if Nat.ltb (st w) (s w) then
        match nth_error (recs w) (st w) with
        | Some r => if Nat.eqb (k w) (length (ws r))
                    then Some {| recs := recs w; s := s w; st := S (st w); k := O; fl := fl w; t := t w; C := C w; D := D w; dirty := dirty w |}
                    else None
        | None => None
        end
      else None
  | EFlush => Some {| recs := recs w; s := s w; st := st w; k := k w; fl := st w; t := t w; C := C w; D := C w; dirty := fun _ => false |}
  | ETruncate n =>
      if Nat.leb (t w) n && Nat.leb n (fl w)
      then Some {| recs := recs w; s := s w; st := st w; k := k w; fl := fl w; t := n; C := C w; D := D w; dirty := dirty w |}
      else None
  end.

Fixpoint wrun (evs : list wev) (w : wst) : option wst :=
  match evs with
  | [] => Some w
  | e :: rest => match wstep w e with Some w' => wrun rest w' | None => None end
  end.
