(* W-level model: the write-ahead-log discipline of src/log.rs + src/db.rs as an abstract protocol.
   Records are lists of ABSOLUTE cell writes (a cell = one table location: an index chunk, a value
   slot, a table header; cell / 2^40 names the file it lives in). Tables have a page-cache image C
   and a durable image D; [dirtyl] lists the cells stored to since the last sync of their file: their
   durable content is unknown after a power loss. The log keeps the records [t, length recs); the
   first [s] of them are durable (fdatasync). Definitions only. *)
From Coq Require Import Arith NArith List Bool.
Import ListNotations.
Open Scope N_scope.

Definition cell := N.
Definition base := N -> cell.
Record record := { ws : list (N * cell) }.
Definition upd (T : base) l c : base := fun x => if x =? l then c else T x.
Definition apply_ws (w : list (N * cell)) (T : base) : base := fold_left (fun T lc => upd T (fst lc) (snd lc)) w T.
Definition apply_recs (rs : list record) (T : base) : base := fold_left (fun T r => apply_ws (ws r) T) rs T.
Definition wr (w : list (N * cell)) (l : N) : bool := existsb (fun lc => fst lc =? l) w.
Definition wrs (rs : list record) (l : N) : bool := existsb (fun r => wr (ws r) l) rs.
Definition sub {A} (xs : list A) (i j : nat) : list A := firstn (j - i) (skipn i xs).

Record wst := {
  recs : list record;   (* every record appended so far (complete in the page cache) *)
  s : nat;              (* records [0,s) are durable in the log (fdatasync)            *)
  st : nat;             (* records [0,st) fully stored into C; record st in progress    *)
  k : nat;              (* number of writes of record st already stored                 *)
  t : nat;              (* records [0,t) have been truncated away from the log          *)
  C : base; D : base;
  dirtyl : list N       (* cells stored to since the last sync that covered them        *)
}.
Definition dirty (w : wst) (l : N) : bool := existsb (N.eqb l) (dirtyl w).

(* the writes of the record in progress that are already stored *)
Definition cur (w : wst) : list (N * cell) := match nth_error (recs w) (st w) with Some r => firstn (k w) (ws r) | None => [] end.

(* D2 in its weakest sound form: after dropping the records below n from the log, every cell whose
   durable content is unknown is still (re)written by a record the log keeps, or by the record in
   progress. "Flush all tables, then truncate what was stored before the flush" is the special case
   of an empty dirty list. *)
Definition trunc_ok (w : wst) (n : nat) : bool :=
  forallb (fun l => wrs (sub (recs w) n (st w)) l || wr (cur w) l) (dirtyl w).

Inductive step : wst -> wst -> Prop :=
| Append w r : step w {| recs := recs w ++ [r]; s := s w; st := st w; k := k w; t := t w; C := C w; D := D w; dirtyl := dirtyl w |}
| SyncLog w : step w {| recs := recs w; s := length (recs w); st := st w; k := k w; t := t w; C := C w; D := D w; dirtyl := dirtyl w |}
| Store w r l c : (st w < s w)%nat ->                                   (* D1: only synced records are applied *)
    nth_error (recs w) (st w) = Some r -> nth_error (ws r) (k w) = Some (l, c) ->
    step w {| recs := recs w; s := s w; st := st w; k := S (k w); t := t w;
              C := upd (C w) l c; D := D w; dirtyl := l :: dirtyl w |}
| Finish w r : (st w < s w)%nat -> nth_error (recs w) (st w) = Some r -> k w = length (ws r) ->
    step w {| recs := recs w; s := s w; st := S (st w); k := O; t := t w; C := C w; D := D w; dirtyl := dirtyl w |}
| SyncSome w (P : N -> bool) :                                           (* msync of the cells selected by P (one file, or all of them); may run while a record is half applied *)
    step w {| recs := recs w; s := s w; st := st w; k := k w; t := t w; C := C w;
              D := fun l => if P l then C w l else D w l; dirtyl := filter (fun l => negb (P l)) (dirtyl w) |}
| Truncate w n : (t w <= n <= st w)%nat -> trunc_ok w n = true ->        (* D2 *)
    step w {| recs := recs w; s := s w; st := st w; k := k w; t := n; C := C w; D := D w; dirtyl := dirtyl w |}.

Definition init (T0 : base) : wst :=
  {| recs := []; s := O; st := O; k := O; t := O; C := T0; D := T0; dirtyl := [] |}.

Inductive reach (T0 : base) : wst -> Prop :=
| R0 : reach T0 (init T0)
| RS w w' : reach T0 w -> step w w' -> reach T0 w'.


(* ---- executable form of the protocol, used to accept event traces observed on the implementation ---- *)
Definition file_of (l : N) : N := l / 2 ^ 40.
Inductive wev :=
| EAppend (r : record)     (* a complete record written to the log file (page cache) *)
| ESyncLog                 (* fdatasync of the log *)
| EStore                   (* the next write of the record being enacted reaches the table's mapping *)
| EFinish                  (* the record being enacted is done *)
| EFlush                   (* every table mapping flushed (msync) *)
| ESyncFile (x : N)        (* the mapping of table file x flushed *)
| ETruncate (n : nat).     (* log files holding the records below n truncated / deleted *)

Definition wstep (w : wst) (e : wev) : option wst :=
  match e with
  | EAppend r => Some {| recs := recs w ++ [r]; s := s w; st := st w; k := k w; t := t w; C := C w; D := D w; dirtyl := dirtyl w |}
  | ESyncLog => Some {| recs := recs w; s := length (recs w); st := st w; k := k w; t := t w; C := C w; D := D w; dirtyl := dirtyl w |}
  | EStore =>
      if Nat.ltb (st w) (s w) then
        match nth_error (recs w) (st w) with
        | Some r => match nth_error (ws r) (k w) with
                    | Some (l, c) => Some {| recs := recs w; s := s w; st := st w; k := S (k w); t := t w;
                                             C := upd (C w) l c; D := D w; dirtyl := l :: dirtyl w |}
                    | None => None
                    end
        | None => None
        end
      else None
  | EFinish =>
      if Nat.ltb (st w) (s w) then
        match nth_error (recs w) (st w) with
        | Some r => if Nat.eqb (k w) (length (ws r))
                    then Some {| recs := recs w; s := s w; st := S (st w); k := O; t := t w; C := C w; D := D w; dirtyl := dirtyl w |}
                    else None
        | None => None
        end
      else None
  | EFlush => Some {| recs := recs w; s := s w; st := st w; k := k w; t := t w; C := C w;
                      D := fun l => if (fun _ => true) l then C w l else D w l; dirtyl := filter (fun l => negb ((fun _ => true) l)) (dirtyl w) |}
  | ESyncFile x => Some {| recs := recs w; s := s w; st := st w; k := k w; t := t w; C := C w;
                           D := fun l => if file_of l =? x then C w l else D w l;
                           dirtyl := filter (fun l => negb (file_of l =? x)) (dirtyl w) |}
  | ETruncate n =>
      if Nat.leb (t w) n && Nat.leb n (st w) && trunc_ok w n
      then Some {| recs := recs w; s := s w; st := st w; k := k w; t := n; C := C w; D := D w; dirtyl := dirtyl w |}
      else None
  end.

Fixpoint wrun (evs : list wev) (w : wst) : option wst :=
  match evs with
  | [] => Some w
  | e :: rest => match wstep w e with Some w' => wrun rest w' | None => None end
  end.
