(* A failing pipeline stage (C16): what a background worker does with the error of its stage
   (DbInner::store_err: remember the error, signal shutdown), and the client calls that can still
   happen afterwards - commits and reads; no stage runs any more. Definitions only. *)
From Coq Require Import NArith List Bool.
From PDB Require Import Model.Pipeline.
Import ListNotations.
Open Scope N_scope.

Definition fail (s : pstate) : pstate :=
  {| ov := ov s; queue := queue s; next_cid := next_cid s; lo := lo s; tb := tb s; next_rid := next_rid s;
     appending := appending s; readq := readq s; reading := reading s; dirty := Pipeline.dirty s; bg_err := true |}.

(* commit calls after the failure, with their result codes *)
Fixpoint commits_after (cfg : list ccfg) (s : pstate) (txs : list tx) : pstate * list N :=
  match txs with
  | [] => (s, [])
  | t :: rest => let '(s1, r) := commit cfg s t in let '(s2, rs) := commits_after cfg s1 rest in (s2, r :: rs)
  end.
