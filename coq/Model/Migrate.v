(* Model of src/migration.rs at the level of cells: for every entry (key, value, count) of a source
   column the migration issues [count] pre-hashed Sets of (key, value) to the destination, in
   batches; the destination applies them with its own column semantics ([plan_op] of the pipeline
   model). Definitions only. *)
From Coq Require Import NArith List Bool.
From PDB Require Import Model.Pipeline.
Import ListNotations.
Open Scope N_scope.

(* the operations the migration pushes for one source entry *)
Definition entry_ops (c : col) (k : key) (v : val) (rc : N) : tx := repeat (c, OSet k v) (N.to_nat rc).

(* source content of one column: distinct keys *)
Definition scontent := list (key * (val * N)).

Definition migrate_ops (c : col) (src : scontent) : tx :=
  flat_map (fun e => entry_ops c (fst e) (fst (snd e)) (snd (snd e))) src.

(* apply a list of operations to a destination cell map, one by one, with the destination's semantics *)
Definition dcell_step (cf : ccfg) (cur : cell) (o : op) : cell :=
  match plan_op cf cur o with Some w => w | None => cur end.

Fixpoint apply_ops (cf : ccfg) (c : col) (ops : tx) (M : key -> cell) : key -> cell :=
  match ops with
  | [] => M
  | (c', o) :: rest =>
      let M' := if c' =? c then (fun x => if x =? op_key o then dcell_step cf (M (op_key o)) o else M x) else M in
      apply_ops cf c rest M'
  end.

Definition migrate_col (dcf : ccfg) (c : col) (src : scontent) : key -> cell :=
  apply_ops dcf c (migrate_ops c src) (fun _ => None).

(* what the destination must hold for a source entry *)
Definition expected (dcf : ccfg) (v : val) (rc : N) : cell :=
  if rc =? 0 then None else Some (v, if c_rc dcf then rc else 1).

Fixpoint lookup_src (src : scontent) (k : key) : option (val * N) :=
  match src with
  | [] => None
  | (k', x) :: rest => if k' =? k then Some x else lookup_src rest k
  end.
