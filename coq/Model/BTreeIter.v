(* Model of src/btree/iter.rs: BTreeIterator = a cursor over the on-disk tree (abstracted to a cursor
   over the sorted list of its entries) merged with the commit overlay of the column.
   Keys are numbers ordered like the byte strings they stand for. Definitions only. *)
From Coq Require Import NArith List Bool.
Import ListNotations.
Open Scope N_scope.

Definition kvs := list (N * N).                 (* sorted by key, strictly *)
Definition ovs := list (N * option N).          (* commit overlay: sorted by key; None = removal *)

Inductive dir := Fwd | Bwd.
Definition dir_eqb (a b : dir) : bool := match a, b with Fwd, Fwd | Bwd, Bwd => true | _, _ => false end.

Inductive lastkey := LStart | LEnd | LAt (k : N) | LSeeked (k : N).

(* position of the tree cursor (BTreeIterState) *)
Inductive bcur :=
| BEmpty                (* no position: the next step starts from the first / last entry *)
| BSeeked (k : N)       (* on entry k, not yet returned *)
| BAt (k : N)           (* entry k was returned *)
| BGap (k : N)          (* between the entries below and above k (k itself is not an entry) *)
| BGapEnd.              (* after the last entry *)

Section Lists.
Context {V : Type}.
Fixpoint l_first_ge (k : N) (l : list (N * V)) : option (N * V) :=
  match l with [] => None | (k', v) :: r => if k <=? k' then Some (k', v) else l_first_ge k r end.
Fixpoint l_first_gt (k : N) (l : list (N * V)) : option (N * V) :=
  match l with [] => None | (k', v) :: r => if k <? k' then Some (k', v) else l_first_gt k r end.
Fixpoint l_last_le (k : N) (l : list (N * V)) : option (N * V) :=
  match l with
  | [] => None
  | (k', v) :: r => if k' <=? k then match l_last_le k r with Some x => Some x | None => Some (k', v) end else None
  end.
Fixpoint l_last_lt (k : N) (l : list (N * V)) : option (N * V) :=
  match l with
  | [] => None
  | (k', v) :: r => if k' <? k then match l_last_lt k r with Some x => Some x | None => Some (k', v) end else None
  end.
Definition l_first (l : list (N * V)) : option (N * V) := hd_error l.
Definition l_last (l : list (N * V)) : option (N * V) := hd_error (rev l).
Fixpoint l_find (k : N) (l : list (N * V)) : option (N * V) :=
  match l with [] => None | (k', v) :: r => if k' =? k then Some (k', v) else l_find k r end.
End Lists.

(* BTreeIterState::next *)
Definition backend_next (b : kvs) (c : bcur) (d : dir) : option (N * N) * bcur :=
  let wrap r := match r with Some (k, v) => (Some (k, v), BAt k) | None => (None, BEmpty) end in
  match c, d with
  | BEmpty, Fwd => wrap (l_first b)
  | BEmpty, Bwd => wrap (l_last b)
  | BSeeked k, _ => wrap (l_find k b)
  | BAt k, Fwd | BGap k, Fwd => wrap (l_first_gt k b)
  | BAt k, Bwd | BGap k, Bwd => wrap (l_last_lt k b)
  | BGapEnd, Fwd => (None, BEmpty)
  | BGapEnd, Bwd => wrap (l_last b)
  end.

Inductive seekto := SInclude (k : N) | SExclude (k : N) | SLast.
(* Node::seek *)
Definition backend_seek (b : kvs) (s : seekto) : bcur :=
  match s with
  | SInclude k => match l_find k b with Some _ => BSeeked k | None => BGap k end
  | SExclude k => match l_find k b with Some _ => BAt k | None => BGap k end
  | SLast => BGapEnd
  end.

(* CommitOverlay::btree_next / btree_prev *)
Definition ov_next (o : ovs) (lk : lastkey) : option (N * option N) :=
  match lk with LStart => l_first o | LEnd => None | LAt k => l_first_gt k o | LSeeked k => l_first_ge k o end.
Definition ov_prev (o : ovs) (lk : lastkey) : option (N * option N) :=
  match lk with LEnd => l_last o | LStart => None | LAt k => l_last_lt k o | LSeeked k => l_last_le k o end.

Record iter := { snap : kvs; cur : bcur; pend : option (option (N * N) * dir); last : lastkey }.

Definition iter_new (b : kvs) : iter := {| snap := b; cur := BEmpty; pend := None; last := LStart |}.

Definition kvs_eqb (a b : kvs) : bool :=
  (N.of_nat (length a) =? N.of_nat (length b)) &&
  forallb (fun p => (fst (fst p) =? fst (snd p)) && (snd (fst p) =? snd (snd p))) (combine a b).

(* the tree changed since the cursor was positioned (the column's last record id differs): the
   pending item is dropped and the cursor is re-positioned from the last key *)
Definition refresh (b : kvs) (it : iter) : iter :=
  if kvs_eqb (snap it) b then it
  else {| snap := b;
          cur := match last it with
                 | LAt k => backend_seek b (SExclude k)
                 | LSeeked k => backend_seek b (SInclude k)
                 | LStart => backend_seek b (SInclude 0)
                 | LEnd => backend_seek b SLast
                 end;
          pend := None; last := last it |}.

(* seek / seek_to_last: both forget the pending backend item (seek_to_last since the repair of finding F17) *)
Definition iter_seek (b : kvs) (it : iter) (k : N) : iter :=
  {| snap := b; cur := backend_seek b (SInclude k); pend := None; last := LSeeked k |}.
Definition iter_seek_last (b : kvs) (it : iter) : iter :=
  {| snap := b; cur := backend_seek b SLast; pend := None; last := LEnd |}.

(* BTreeIterator::iter_inner; [fuel] bounds the number of overlay removals skipped *)
Fixpoint iter_step (fuel : nat) (b : kvs) (o : ovs) (it0 : iter) (d : dir) {struct fuel} : option (N * N) * iter :=
  let it := refresh b it0 in
  let finish (r : option (N * N)) (c : bcur) (p : option (option (N * N) * dir)) : option (N * N) * iter :=
    (r, {| snap := snap it; cur := c; pend := p;
           last := match r with Some (k, _) => LAt k | None => match d with Bwd => LStart | Fwd => LEnd end end |}) in
  match fuel with
  | O => (None, it)
  | S f =>
      (* nothing lies before the start or after the end (the repaired behaviour, finding F16) *)
      match last it0, d with
      | LStart, Bwd | LEnd, Fwd => (None, it0)
      | _, _ =>
      let nov := match d with Fwd => ov_next o (last it) | Bwd => ov_prev o (last it) end in
      let from_pending := match pend it with Some (item, d') => if dir_eqb d' d then Some item else None | None => None end in
      let '(nb, c) := match from_pending with Some item => (item, cur it) | None => backend_next (snap it) (cur it) d end in
      let again (k : N) (p : option (option (N * N) * dir)) :=
        iter_step f b o {| snap := snap it; cur := c; pend := p; last := LAt k |} d in
      match nov, nb with
      | Some (ck, cv), Some (bk, bv) =>
          if (match d with Fwd => ck <? bk | Bwd => bk <? ck end) then
            match cv with
            | Some v => finish (Some (ck, v)) c (Some (Some (bk, bv), d))
            | None => again ck (Some (Some (bk, bv), d))
            end
          else if ck =? bk then
            match cv with
            | Some v => finish (Some (bk, v)) c None
            | None => again ck None
            end
          else finish (Some (bk, bv)) c None
      | Some (ck, Some v), None => finish (Some (ck, v)) c (Some (None, d))
      | Some (ck, None), None => again ck (Some (None, d))
      | None, Some (bk, bv) => finish (Some (bk, bv)) c None
      | None, None => finish None c (Some (None, d))
      end
      end
  end.

(* ---- specification: a cursor over the merged map (tree content overridden by the overlay) ---- *)
Fixpoint insert_sorted (k v : N) (l : kvs) : kvs :=
  match l with
  | [] => [(k, v)]
  | (k', v') :: r => if k <? k' then (k, v) :: l else if k =? k' then (k, v) :: r else (k', v') :: insert_sorted k v r
  end.
Definition remove_key (k : N) (l : kvs) : kvs := filter (fun e => negb (fst e =? k)) l.
Definition merged (b : kvs) (o : ovs) : kvs :=
  fold_left (fun acc e => match snd e with Some v => insert_sorted (fst e) v acc | None => remove_key (fst e) acc end) o b.

(* the position is the last key handed out or sought; each call is answered against the map as it is now *)
Definition spec_step (m : kvs) (lk : lastkey) (d : dir) : option (N * N) * lastkey :=
  let r := match d, lk with
           | Fwd, LStart => l_first m | Fwd, LEnd => None | Fwd, LAt k => l_first_gt k m | Fwd, LSeeked k => l_first_ge k m
           | Bwd, LEnd => l_last m | Bwd, LStart => None | Bwd, LAt k => l_last_lt k m | Bwd, LSeeked k => l_last_le k m
           end in
  (r, match r with Some (k, _) => LAt k | None => match d with Fwd => LEnd | Bwd => LStart end end).
