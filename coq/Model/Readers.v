(* C05: a reader that is NOT atomic with respect to the pipeline. A point read looks, at three
   different moments, into the commit overlay, then the log overlay, then the tables (Db::get ->
   Column::get), while committing threads and the workers move data the same way: commit overlay ->
   log overlay -> tables, always inserting into the next layer before removing from the previous one
   (src/db.rs process_commits: end_record, then clean_overlay; enact_logs: table writes, then the
   overlay entries of the record are dropped).
   State, with the whole history of commits as a ghost: commits [p, n) are in the commit overlay,
   commits [e, p + m) in the log overlay (m = 1 while commit p is in both), commits [0, e) in the
   tables together with the first j writes of commit e. A commit is a list of (key, value) with every
   key at most once (value 0 = deleted). Definitions only. *)
From Coq Require Import NArith List Bool Arith.
Import ListNotations.
Open Scope N_scope.

Definition kv := (N * N)%type.
Notation commit := (list kv) (only parsing).

Fixpoint cval (c : commit) (k : N) : option N :=
  match c with
  | [] => None
  | (k', v) :: r => if k' =? k then Some v else cval r k
  end.

(* the value the newest commit of the list that writes k gives it *)
Fixpoint newest (l : list commit) (k : N) : option N :=
  match l with
  | [] => None
  | c :: r => match newest r k with Some v => Some v | None => cval c k end
  end.

Definition sub {A} (xs : list A) (i j : nat) : list A := firstn (j - i) (skipn i xs).

(* the specification: the key's value after the first tau commits *)
Definition spec (hist : list commit) (tau : nat) (k : N) : N :=
  match newest (firstn tau hist) k with Some v => v | None => 0 end.

Record rstate := {
  hist : list commit;  (* every commit so far, oldest first; its length is the abstract time *)
  e : nat;             (* commits [0, e) are fully in the tables and gone from the log overlay *)
  p : nat;             (* commits [0, p) are gone from the commit overlay *)
  m : bool;            (* commit p is already in the log overlay (and still in the commit overlay) *)
  j : nat              (* writes of commit e already stored in the tables *)
}.
Definition b2n (b : bool) : nat := if b then 1%nat else 0%nat.

Definition cov_lookup (s : rstate) (k : N) : option N := newest (sub (hist s) (p s) (length (hist s))) k.
Definition lov_lookup (s : rstate) (k : N) : option N := newest (sub (hist s) (e s) (p s + b2n (m s))) k.
Definition tbl_lookup (s : rstate) (k : N) : N :=
  match newest (firstn (e s) (hist s) ++ [firstn (j s) (nth (e s) (hist s) [])]) k with Some v => v | None => 0 end.

Inductive rstep : rstate -> rstate -> Prop :=
| RCommit s c : NoDup (map fst c) ->
    rstep s {| hist := hist s ++ [c]; e := e s; p := p s; m := m s; j := j s |}
| RProcBegin s : (p s < length (hist s))%nat -> m s = false ->          (* end_record: into the log overlay *)
    rstep s {| hist := hist s; e := e s; p := p s; m := true; j := j s |}
| RProcEnd s : m s = true ->                                             (* clean_overlay: out of the commit overlay *)
    rstep s {| hist := hist s; e := e s; p := S (p s); m := false; j := j s |}
| REnactWrite s : (e s < p s + b2n (m s))%nat -> (j s < length (nth (e s) (hist s) []))%nat ->
    rstep s {| hist := hist s; e := e s; p := p s; m := m s; j := S (j s) |}
| REnactEnd s : (e s < p s + b2n (m s))%nat -> j s = length (nth (e s) (hist s) []) ->
    rstep s {| hist := hist s; e := S (e s); p := p s; m := m s; j := O |}.

Inductive rsteps : rstate -> rstate -> Prop :=
| rs_refl s : rsteps s s
| rs_step s1 s2 s3 : rstep s1 s2 -> rsteps s2 s3 -> rsteps s1 s3.

Definition rinit : rstate := {| hist := []; e := O; p := O; m := false; j := O |}.

(* what a reader returns that looked into the commit overlay in state s1, into the log overlay in
   state s2 and into the tables in state s3 *)
Definition read3 (s1 s2 s3 : rstate) (k : N) : N :=
  match cov_lookup s1 k with
  | Some v => v
  | None => match lov_lookup s2 k with Some v => v | None => tbl_lookup s3 k end
  end.
