(* Specification side of the pipeline model: what the user is promised.
   A map from (column, key) to the last written value, updated by the accepted transactions in
   commit order and, inside one transaction, in the order the operations were given. *)
From Coq Require Import NArith List Bool.
From PDB Require Import Model.Pipeline.
Import ListNotations.
Open Scope N_scope.

Definition vmap := loc -> option val.
Definition updv (M : vmap) (l : loc) (x : option val) : vmap := fun y => if loc_eqb l y then x else M y.
Definition spec_op (M : vmap) (co : col * op) : vmap :=
  match snd co with
  | OSet k v => updv M (fst co, k) (Some v)
  | ODeref k => updv M (fst co, k) None
  | ORef _ => M
  end.
Definition spec_tx (M : vmap) (t : tx) : vmap := fold_left spec_op t M.
Definition spec_txs (M : vmap) (ts : list tx) : vmap := fold_left spec_tx ts M.


(* the transactions a history's commit calls accepted, in order *)
Fixpoint accepted (cfg : list ccfg) (steps : list step) : list tx :=
  match steps with
  | [] => []
  | SCommit t :: rest => if tx_valid cfg t then t :: accepted cfg rest else accepted cfg rest
  | _ :: rest => accepted cfg rest
  end.

(* the preimage contract: on a column configured with [preimage] the value is a function of the key *)
Definition op_pre (cfg : list ccfg) (f : loc -> val) (co : col * op) : Prop :=
  match snd co with
  | OSet k v => c_preimage (cfg_of cfg (fst co)) = true -> v = f (fst co, k)
  | _ => True
  end.
Definition tx_pre (cfg : list ccfg) (f : loc -> val) (t : tx) : Prop := Forall (op_pre cfg f) t.
Definition step_pre (cfg : list ccfg) (f : loc -> val) (st : step) : Prop :=
  match st with SCommit t => tx_pre cfg f t | _ => True end.

(* ---- reference counts (C07): starts at zero, raised by every set and by every reference to a
   present key, lowered by every dereference of a present key; references and dereferences of an
   absent key are ignored ---- *)
Definition cnt_op (n : N) (o : op) : N :=
  match o with
  | OSet _ _ => n + 1
  | ORef _ => if 0 <? n then n + 1 else 0
  | ODeref _ => if 0 <? n then n - 1 else 0
  end.
Definition cmap := loc -> N.
Definition cnt_step (M : cmap) (co : col * op) : cmap :=
  fun l => if loc_eqb (fst co, op_key (snd co)) l then cnt_op (M l) (snd co) else M l.
Definition cnt_tx (M : cmap) (t : tx) : cmap := fold_left cnt_step t M.
Definition cnt_txs (M : cmap) (ts : list tx) : cmap := fold_left cnt_tx ts M.
