(* P-level model of the write pipeline of src/db.rs + src/log.rs over an abstract per-key backend.

   Three layers hold data, exactly as in the code:
     commit overlay   (entries tagged with the commit id that wrote them; db.rs commit_raw / clean_overlay)
     log overlay      (entries tagged with the log record id; log.rs end_record / end_read)
     tables           (what has been enacted; enact_plan)
   A cell is what the storage holds for one (column, key): [None] or [Some (value, count)].
   A log record is a list of ABSOLUTE cell writes, like the physical records.
   Definitions only; proofs are in Proofs/PipelineProofs.v. *)
From Coq Require Import NArith List Bool.
Import ListNotations.
Open Scope N_scope.

Definition key := N.
Definition val := N.
Definition col := N.

Inductive op := OSet (k : key) (v : val) | ODeref (k : key) | ORef (k : key).
Definition op_key (o : op) : key := match o with OSet k _ => k | ODeref k => k | ORef k => k end.

Record ccfg := { c_btree : bool; c_rc : bool; c_preimage : bool }.

Definition loc := (col * key)%type.
Definition loc_eqb (a b : loc) : bool := (fst a =? fst b) && (snd a =? snd b).

Definition cell := option (val * N).          (* stored value and reference count *)

(* ---- association lists keyed by loc ---- *)
Fixpoint look {A} (m : list (loc * A)) (l : loc) : option A :=
  match m with
  | [] => None
  | (l', a) :: m' => if loc_eqb l' l then Some a else look m' l
  end.
Definition del {A} (m : list (loc * A)) (l : loc) : list (loc * A) :=
  filter (fun e => negb (loc_eqb (fst e) l)) m.
Definition put {A} (m : list (loc * A)) (l : loc) (a : A) : list (loc * A) := (l, a) :: del m l.

(* ---- layers ---- *)
Definition tables := list (loc * (val * N)).                 (* absent = empty cell *)
Definition logov := list (loc * (N * cell)).                 (* loc -> (record id, cell) *)
Definition covl := list (loc * (N * option val)).            (* loc -> (commit id, Some v | removal) *)

Definition tb_read (t : tables) (l : loc) : cell := look t l.
Definition tb_write (t : tables) (l : loc) (c : cell) : tables :=
  match c with Some x => put t l x | None => del t l end.

(* what a reader of the log overlay + tables sees *)
Definition lov_read (lo : logov) (t : tables) (l : loc) : cell :=
  match look lo l with Some (_, c) => c | None => tb_read t l end.

Record record := { rid : N; writes : list (loc * cell) }.

(* the planner reads its own local writes first (LogWriter), then the log overlay, then the tables *)
Definition plan_read (local : list (loc * cell)) (lo : logov) (t : tables) (l : loc) : cell :=
  match look local l with Some c => c | None => lov_read lo t l end.

(* HashColumn::write_plan / write_existing_value_plan / btree Node::change at the level of cells *)
Definition plan_op (cf : ccfg) (cur : cell) (o : op) : option cell :=   (* None = no write *)
  match o, cur with
  | OSet _ v, None => Some (Some (v, 1))
  | OSet _ v, Some (v0, rc) =>
      if c_rc cf then Some (Some (v0, rc + 1))
      else if c_preimage cf then None
      else Some (Some (v, rc))
  | ODeref _, None => None
  | ODeref _, Some (v0, rc) =>
      if c_rc cf then (if 1 <? rc then Some (Some (v0, rc - 1)) else Some None)
      else Some None
  | ORef _, None => None
  | ORef _, Some (v0, rc) => if c_rc cf then Some (Some (v0, rc + 1)) else None
  end.

Definition cfg_of (cfg : list ccfg) (c : col) : ccfg :=
  nth (N.to_nat c) cfg {| c_btree := false; c_rc := false; c_preimage := false |}.

Definition tx := list (col * op).

Fixpoint plan_tx (cfg : list ccfg) (lo : logov) (t : tables) (ops : tx) (local : list (loc * cell))
  : list (loc * cell) :=
  match ops with
  | [] => local
  | (c, o) :: rest =>
      let l := (c, op_key o) in
      let local' := match plan_op (cfg_of cfg c) (plan_read local lo t l) o with
                    | Some w => put local l w
                    | None => local
                    end in
      plan_tx cfg lo t rest local'
  end.

(* ---- commit overlay (db.rs copy_to_overlay / clean_overlay) ---- *)
Definition covl_entry (cf : ccfg) (o : op) : option (option val) :=
  match o with
  | OSet _ v => Some (Some v)
  | ODeref _ => if c_rc cf then None else Some None
  | ORef _ => None
  end.

Fixpoint copy_to_overlay (cfg : list ccfg) (cid : N) (ops : tx) (ov : covl) : covl :=
  match ops with
  | [] => ov
  | (c, o) :: rest =>
      let ov' := match covl_entry (cfg_of cfg c) o with
                 | Some e => put ov (c, op_key o) (cid, e)
                 | None => ov
                 end in
      copy_to_overlay cfg cid rest ov'
  end.

(* remove the entries of the transaction's keys that still carry this commit id *)
Fixpoint clean_overlay (cid : N) (ops : tx) (ov : covl) : covl :=
  match ops with
  | [] => ov
  | (c, o) :: rest =>
      let l := (c, op_key o) in
      let ov' := match o with
                 | ORef _ => ov     (* clean_overlay only visits Set and Dereference keys *)
                 | _ => match look ov l with
                        | Some (i, _) => if i =? cid then del ov l else ov
                        | None => ov
                        end
                 end in
      clean_overlay cid rest ov'
  end.

(* ---- log overlay (log.rs end_record / end_read) ---- *)
Fixpoint publish (r : N) (ws : list (loc * cell)) (lo : logov) : logov :=
  match ws with
  | [] => lo
  | (l, c) :: rest => publish r rest (put lo l (r, c))
  end.
Fixpoint retire (r : N) (ws : list (loc * cell)) (lo : logov) : logov :=
  match ws with
  | [] => lo
  | (l, _) :: rest =>
      let lo' := match look lo l with
                 | Some (i, _) => if i =? r then del lo l else lo
                 | None => lo
                 end in
      retire r rest lo'
  end.
Fixpoint enact_writes (ws : list (loc * cell)) (t : tables) : tables :=
  match ws with
  | [] => t
  | (l, c) :: rest => enact_writes rest (tb_write t l c)
  end.

(* ---- validity of a transaction (commit_changes / copy_to_overlay error branches) ---- *)
Definition op_valid (cf : ccfg) (o : op) : bool :=
  match o with ORef _ => c_rc cf | _ => true end.
Definition tx_valid (cfg : list ccfg) (t : tx) : bool :=
  forallb (fun co => (fst co <? N.of_nat (length cfg)) && op_valid (cfg_of cfg (fst co)) (snd co)) t.

(* ---- the pipeline state ---- *)
Record pstate := {
  ov : covl;                         (* commit overlay *)
  queue : list (N * tx);             (* queued commits, oldest first *)
  next_cid : N;                      (* CommitQueue::record_id *)
  lo : logov;                        (* log overlay *)
  tb : tables;                       (* enacted tables *)
  next_rid : N;                      (* Log::next_record_id *)
  appending : list record;           (* records in the log file being appended, oldest first *)
  readq : list (list record);        (* flushed log files waiting to be read *)
  reading : option (list record);    (* remaining records of the log file being enacted *)
  dirty : N;                         (* fully read log files not yet cleaned *)
  bg_err : bool
}.

Definition init : pstate :=
  {| ov := []; queue := []; next_cid := 0; lo := []; tb := []; next_rid := 1;
     appending := []; readq := []; reading := None; dirty := 0; bg_err := false |}.

Inductive step :=
| SCommit (t : tx)
| SProcess          (* process_commits: one queued commit -> one log record *)
| SFlush            (* flush_logs(0) *)
| SEnactOne         (* enact one record (hook H3) *)
| SEnactAll         (* instrumentation enact_logs: to the end of one log file *)
| SClean            (* clean_logs *)
| SReopen           (* drop the handle (kill_logs) and open again *)
| SReindex.         (* process_reindex: moves index entries between index generations; no logical change *)

Definition set_ov s x := {| ov := x; queue := queue s; next_cid := next_cid s; lo := lo s; tb := tb s; next_rid := next_rid s;
  appending := appending s; readq := readq s; reading := reading s; dirty := dirty s; bg_err := bg_err s |}.

(* result code of a commit: 0 = Ok, 1 = InvalidInput, 3 = Background *)
Definition commit (cfg : list ccfg) (s : pstate) (t : tx) : pstate * N :=
  if bg_err s then (s, 3)
  else if negb (tx_valid cfg t) then (s, 1)
  else
    let cid := next_cid s + 1 in
    ({| ov := copy_to_overlay cfg cid t (ov s); queue := queue s ++ [(cid, t)]; next_cid := cid;
        lo := lo s; tb := tb s; next_rid := next_rid s; appending := appending s; readq := readq s;
        reading := reading s; dirty := dirty s; bg_err := bg_err s |}, 0).

Definition process (cfg : list ccfg) (s : pstate) : pstate :=
  match queue s with
  | [] => s
  | (cid, t) :: rest =>
      let ws := rev (plan_tx cfg (lo s) (tb s) t []) in
      let r := {| rid := next_rid s; writes := ws |} in
      {| ov := clean_overlay cid t (ov s); queue := rest; next_cid := next_cid s;
         lo := publish (rid r) ws (lo s); tb := tb s; next_rid := next_rid s + 1;
         appending := appending s ++ [r]; readq := readq s; reading := reading s; dirty := dirty s;
         bg_err := bg_err s |}
  end.

Definition flush (s : pstate) : pstate :=
  match appending s with
  | [] => s
  | _ => {| ov := ov s; queue := queue s; next_cid := next_cid s; lo := lo s; tb := tb s; next_rid := next_rid s;
            appending := []; readq := readq s ++ [appending s]; reading := reading s; dirty := dirty s;
            bg_err := bg_err s |}
  end.

(* Log::read_next: take the next file if none is being read *)
Definition open_reading (s : pstate) : pstate :=
  match reading s, readq s with
  | None, f :: rest =>
      {| ov := ov s; queue := queue s; next_cid := next_cid s; lo := lo s; tb := tb s; next_rid := next_rid s;
         appending := appending s; readq := rest; reading := Some f; dirty := dirty s; bg_err := bg_err s |}
  | _, _ => s
  end.

(* one call of DbInner::enact_logs(false): returns the new state and whether a record was enacted *)
Definition enact_one (s0 : pstate) : pstate * bool :=
  let s := open_reading s0 in
  match reading s with
  | None => (s, false)
  | Some [] =>   (* end of file: the log moves to the cleanup queue *)
      ({| ov := ov s; queue := queue s; next_cid := next_cid s; lo := lo s; tb := tb s; next_rid := next_rid s;
          appending := appending s; readq := readq s; reading := None; dirty := dirty s + 1; bg_err := bg_err s |}, false)
  | Some (r :: rest) =>
      ({| ov := ov s; queue := queue s; next_cid := next_cid s;
          lo := retire (rid r) (writes r) (lo s); tb := enact_writes (writes r) (tb s); next_rid := next_rid s;
          appending := appending s; readq := readq s; reading := Some rest; dirty := dirty s; bg_err := bg_err s |}, true)
  end.

Fixpoint enact_loop (fuel : nat) (s : pstate) : pstate :=
  match fuel with
  | O => s
  | S f => let '(s', more) := enact_one s in if more then enact_loop f s' else s'
  end.

Definition pending_records (s : pstate) : nat :=
  length (appending s) + fold_right (fun f n => length f + n)%nat O (readq s)
  + match reading s with Some f => length f | None => O end.

Definition enact_all (s : pstate) : pstate := enact_loop (S (pending_records s)) s.

Definition clean (s : pstate) : pstate :=
  {| ov := ov s; queue := queue s; next_cid := next_cid s; lo := lo s; tb := tb s; next_rid := next_rid s;
     appending := appending s; readq := readq s; reading := reading s; dirty := 0; bg_err := bg_err s |}.

Fixpoint process_all (cfg : list ccfg) (fuel : nat) (s : pstate) : pstate :=
  match fuel with
  | O => s
  | S f => match queue s with [] => s | _ => process_all cfg f (process cfg s) end
  end.

(* records left in log files on disk after kill_logs, oldest first: they are replayed by open *)
Definition leftover (s : pstate) : list record :=
  (match reading s with Some f => f | None => [] end) ++ concat (readq s) ++ appending s.

Fixpoint replay (rs : list record) (t : tables) : tables :=
  match rs with
  | [] => t
  | r :: rest => replay rest (enact_writes (writes r) t)
  end.

(* DbInner::kill_logs followed by Db::open: enact / flush(0) / process* / enact / flush(0) / enact,
   flush tables, truncate read logs; open replays whatever log files are left, in order. *)
Definition kill_logs (cfg : list ccfg) (s : pstate) : pstate :=
  let s1 := enact_all s in
  let s2 := flush s1 in
  let s3 := process_all cfg (length (queue s2)) s2 in
  let s4 := enact_all s3 in
  let s5 := flush s4 in
  let s6 := enact_all s5 in
  clean s6.

Definition reopen (cfg : list ccfg) (s : pstate) : pstate :=
  if bg_err s then s else
  let k := kill_logs cfg s in
  {| ov := []; queue := []; next_cid := 0; lo := []; tb := replay (leftover k) (tb k);
     next_rid := next_rid k; appending := []; readq := []; reading := None; dirty := 0; bg_err := false |}.

Definition do_step (cfg : list ccfg) (s : pstate) (st : step) : pstate * N :=
  match st with
  | SCommit t => commit cfg s t
  | SProcess => (process cfg s, 0)
  | SFlush => (flush s, 0)
  | SEnactOne => (fst (enact_one s), 0)
  | SEnactAll => (enact_all s, 0)
  | SClean => (clean s, 0)
  | SReopen => (reopen cfg s, 0)
  | SReindex => (s, 0)
  end.

Fixpoint run (cfg : list ccfg) (s : pstate) (steps : list step) : pstate :=
  match steps with
  | [] => s
  | st :: rest => run cfg (fst (do_step cfg s st)) rest
  end.

(* ---- reads (DbInner::get / get_size) ---- *)
Definition get (s : pstate) (c : col) (k : key) : option val :=
  match look (ov s) (c, k) with
  | Some (_, v) => v
  | None => option_map fst (lov_read (lo s) (tb s) (c, k))
  end.

(* value tokens carry their length in the low 32 bits *)
Definition vlen (v : val) : N := v mod 2^32.
Definition get_size (s : pstate) (c : col) (k : key) : option N := option_map vlen (get s c k).

(* reference count as the storage holds it (observable through value iteration) *)
Definition stored_rc (s : pstate) (c : col) (k : key) : N :=
  match lov_read (lo s) (tb s) (c, k) with Some (_, rc) => rc | None => 0 end.
