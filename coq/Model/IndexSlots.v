(* C09, slot level: the hash index of one column as src/index.rs and src/column.rs keep it - a current
   generation with 2^bits pages of 64 slots, older generations waiting in the reindex queue, entries
   (address, partial key) in the first free slot of their page - and the four operations that change it:
   a key gets a (new) address, a key is removed, the index grows, a reindex batch moves the entries of the
   oldest waiting generation into the current one and finally drops it.

   An entry is modelled by what can be recovered from it: the 50 leading bits of the key prefix (page bits
   and partial key together, IndexTable::recover_key_prefix) and the address. The value tables appear as
   the map [holds] from addresses to the keys stored there (ValueTable::has_key_at); which address a value
   gets is the allocator's business (C14) and an input here.
   Page search is modelled as comparing ALL stored key bits. That is what the code does from 18 index bits
   on (C19_equal_from_18_bits); with 16 or 17 bits it compares 32 of the 34 / 33 stored bits, which can
   only add candidates that the has_key_at check then rejects.
   Definitions only. *)
From Coq Require Import NArith List Bool Arith.
From PDB Require Import Gen.Consts.
Import ListNotations.
Open Scope N_scope.

Record ientry := { e_known : N; e_addr : N }.
Definition slot := option ientry.
Record igen := { g_bits : N; g_pages : list (N * list slot) }.   (* page number -> its 64 slots; absent = empty *)
Record istate := { cur : igen; queue : list igen (* oldest first *); progress : N; holds : list (N * N) (* address -> key *) }.

Definition nslots : nat := N.to_nat index_chunk_entries.
Definition known_of (prefix : N) : N := prefix / 2 ^ 14.              (* the 50 leading bits of a 64-bit prefix *)
Definition page_of (bits known : N) : N := known / 2 ^ (50 - bits).

Fixpoint alookup {A} (l : list (N * A)) (k : N) : option A :=
  match l with [] => None | (k', v) :: r => if k' =? k then Some v else alookup r k end.
Fixpoint aremove {A} (l : list (N * A)) (k : N) : list (N * A) :=
  match l with [] => [] | (k', v) :: r => if k' =? k then aremove r k else (k', v) :: aremove r k end.
Definition aset {A} (l : list (N * A)) (k : N) (v : A) : list (N * A) := (k, v) :: aremove l k.

Definition get_page (g : igen) (p : N) : list slot :=
  match alookup (g_pages g) p with Some s => s | None => repeat None nslots end.
Definition set_page (g : igen) (p : N) (s : list slot) : igen := {| g_bits := g_bits g; g_pages := aset (g_pages g) p s |}.

Fixpoint set_nth_slot (l : list slot) (n : nat) (x : slot) : list slot :=
  match l, n with
  | [], _ => []
  | _ :: r, O => x :: r
  | a :: r, S n' => a :: set_nth_slot r n' x
  end.

(* IndexTable::plan_insert_chunk without a slot: the first empty slot, or no room *)
Fixpoint first_empty (l : list slot) (i : nat) : option nat :=
  match l with
  | [] => None
  | None :: _ => Some i
  | Some _ :: r => first_empty r (S i)
  end.
Definition insert_gen (g : igen) (e : ientry) : option igen :=
  let p := page_of (g_bits g) (e_known e) in
  match first_empty (get_page g p) 0 with
  | Some i => Some (set_page g p (set_nth_slot (get_page g p) i (Some e)))
  | None => None
  end.

(* HashColumn::trigger_reindex: the current generation joins the queue, a new empty one with one more bit *)
Definition grow (st : istate) : istate :=
  {| cur := {| g_bits := g_bits (cur st) + 1; g_pages := [] |}; queue := queue st ++ [cur st];
     progress := progress st; holds := holds st |}.

(* insert into the current generation, growing when the page is full (a new generation is empty: one growth is enough) *)
Definition insert_cur (st : istate) (e : ientry) : istate :=
  match insert_gen (cur st) e with
  | Some g => {| cur := g; queue := queue st; progress := progress st; holds := holds st |}
  | None =>
      let st' := grow st in
      match insert_gen (cur st') e with
      | Some g => {| cur := g; queue := queue st'; progress := progress st'; holds := holds st' |}
      | None => st'
      end
  end.

(* HashColumn::search_index: the first slot of the key's page whose entry carries the key's bits and whose
   address holds the key *)
Fixpoint find_slot (l : list slot) (i : nat) (ok : ientry -> bool) : option (nat * ientry) :=
  match l with
  | [] => None
  | Some e :: r => if ok e then Some (i, e) else find_slot r (S i) ok
  | None :: r => find_slot r (S i) ok
  end.
Definition search_gen (hs : list (N * N)) (g : igen) (key known : N) : option (nat * N) :=
  match find_slot (get_page g (page_of (g_bits g) known)) 0
          (fun e => (e_known e =? known) && match alookup hs (e_addr e) with Some k => k =? key | None => false end) with
  | Some (i, e) => Some (i, e_addr e)
  | None => None
  end.
(* HashColumn::search_all_indexes: the current generation, then the waiting ones, oldest first.
   Result: which generation (0 = current, n+1 = n-th of the queue), slot, address *)
Fixpoint search_queue (hs : list (N * N)) (q : list igen) (n : nat) (key known : N) : option (nat * nat * N) :=
  match q with
  | [] => None
  | g :: r => match search_gen hs g key known with
              | Some (i, a) => Some (n, i, a)
              | None => search_queue hs r (S n) key known
              end
  end.
Definition search_all (st : istate) (key known : N) : option (nat * nat * N) :=
  match search_gen (holds st) (cur st) key known with
  | Some (i, a) => Some (O, i, a)
  | None => search_queue (holds st) (queue st) 1 key known
  end.

Definition lookup (st : istate) (key known : N) : option N :=
  match search_all st key known with Some (_, _, a) => Some a | None => None end.

Definition clear_slot (g : igen) (p : N) (i : nat) : igen := set_page g p (set_nth_slot (get_page g p) i None).
Fixpoint map_nth_gen (q : list igen) (n : nat) (f : igen -> igen) : list igen :=
  match q, n with
  | [], _ => []
  | g :: r, O => f g :: r
  | g :: r, S n' => g :: map_nth_gen r n' f
  end.

(* a key is written and its value is (now) at [addr]: HashColumn::write_plan for Operation::Set *)
Definition op_set (st : istate) (key known addr : N) : istate :=
  match search_all st key known with
  | Some (gi, i, a) =>
      if a =? addr then st      (* replaced in place: the index is not touched *)
      else
        let hs := aset (aremove (holds st) a) addr key in
        match gi with
        | O => (* found in the current generation: its slot is rewritten *)
            let p := page_of (g_bits (cur st)) known in
            {| cur := set_page (cur st) p (set_nth_slot (get_page (cur st) p) i (Some {| e_known := known; e_addr := addr |}));
               queue := queue st; progress := progress st; holds := hs |}
        | S _ => (* found in an older generation: a new entry in the current one, the old entry stays behind *)
            insert_cur {| cur := cur st; queue := queue st; progress := progress st; holds := hs |} {| e_known := known; e_addr := addr |}
        end
  | None =>
      insert_cur {| cur := cur st; queue := queue st; progress := progress st; holds := aset (holds st) addr key |}
                 {| e_known := known; e_addr := addr |}
  end.

(* Operation::Dereference of the last reference: the value slot is freed, the entry found is emptied in the
   generation it was found in *)
Definition op_remove (st : istate) (key known : N) : istate :=
  match search_all st key known with
  | Some (gi, i, a) =>
      let hs := aremove (holds st) a in
      match gi with
      | O => {| cur := clear_slot (cur st) (page_of (g_bits (cur st)) known) i; queue := queue st; progress := progress st; holds := hs |}
      | S n => {| cur := cur st; queue := map_nth_gen (queue st) n (fun g => clear_slot g (page_of (g_bits g) known) i);
                  progress := progress st; holds := hs |}
      end
  | None => st
  end.

(* HashColumn::reindex + DbInner::process_reindex: whole pages of the oldest waiting generation, from [progress]
   on, until the batch holds max_reindex_batch entries or the generation is exhausted; every entry is inserted
   into the current generation unless an entry with the same key bits and the same address is already there
   (write_reindex_plan); an exhausted generation is dropped. *)
Definition entries_of (s : list slot) : list ientry := flat_map (fun x => match x with Some e => [e] | None => [] end) s.
Fixpoint insert_sorted (p : N) (l : list N) : list N :=
  match l with [] => [p] | x :: r => if p <? x then p :: l else if p =? x then l else x :: insert_sorted p r end.
Definition nonempty_page (g : igen) (p : N) : bool := match entries_of (get_page g p) with [] => false | _ => true end.
Definition pages_from (g : igen) (from : N) : list N :=
  fold_left (fun acc pe => if (from <=? fst pe) && nonempty_page g (fst pe) then insert_sorted (fst pe) acc else acc) (g_pages g) [].
(* the pages taken by one batch, and the page the next batch starts at (None: the generation is exhausted) *)
Fixpoint take_pages (g : igen) (ps : list N) (n : N) (acc : list ientry) : list ientry * option N :=
  match ps with
  | [] => (acc, None)
  | p :: r =>
      let acc' := acc ++ entries_of (get_page g p) in
      let n' := n + N.of_nat (length (entries_of (get_page g p))) in
      if column_max_reindex_batch <=? n' then (acc', Some (p + 1)) else take_pages g r n' acc'
  end.
Definition has_same (g : igen) (e : ientry) : bool :=
  existsb (fun x => match x with Some e' => (e_known e' =? e_known e) && (e_addr e' =? e_addr e) | None => false end)
          (get_page g (page_of (g_bits g) (e_known e))).
Definition move_entry (st : istate) (e : ientry) : istate := if has_same (cur st) e then st else insert_cur st e.
Definition op_reindex (st : istate) : istate :=
  match queue st with
  | [] => st
  | g :: rest =>
      let '(es, next) := take_pages g (pages_from g (progress st)) 0 [] in
      let st1 := fold_left move_entry es st in
      match next with
      | Some p => {| cur := cur st1; queue := queue st1; progress := p; holds := holds st1 |}
      | None => {| cur := cur st1; queue := tl (queue st1); progress := 0; holds := holds st1 |}
      end
  end.

(* a restart forgets how far the oldest generation was moved *)
Definition op_restart (st : istate) : istate := {| cur := cur st; queue := queue st; progress := 0; holds := holds st |}.

Inductive iop := ISet (key known addr : N) | IRemove (key known : N) | IReindex | IRestart.
Definition istep (st : istate) (o : iop) : istate :=
  match o with
  | ISet k kn a => op_set st k kn a
  | IRemove k kn => op_remove st k kn
  | IReindex => op_reindex st
  | IRestart => op_restart st
  end.
Definition iinit : istate := {| cur := {| g_bits := column_min_index_bits; g_pages := [] |}; queue := []; progress := 0; holds := [] |}.
