(* Model of the driver of src/migration.rs ([migrate]): which columns are re-populated and which are
   copied as files, the ONE change set that is filled across columns and committed every COMMIT_SIZE
   pushes, the final commit of the remainder, and - with in-place overwrite - the flush after each
   column followed by the move of the column's files into the source directory. Databases are maps
   column -> key -> cell; a committed change set reaches every column in push order (the code groups the
   pushes by column, which is the same because an operation only reads and writes the cell of its own
   column and key). Definitions only. *)
From Coq Require Import NArith List Bool.
From PDB Require Import Model.Pipeline Model.Migrate.
Import ListNotations.
Open Scope N_scope.

(* one column of the call: option flags of the source's metadata, of the requested configuration, and
   whether the column is in [force_migrate]. Flags: bit0 preimage, bit1 ref_counted, bit2 compression,
   bit3 uniform, bit4 btree_index *)
Record mcol := { m_sf : N; m_df : N; m_force : bool }.

Definition cfg_of_flags (f : N) : ccfg :=
  {| c_btree := N.testbit f 4; c_rc := N.testbit f 1; c_preimage := N.testbit f 0 |}.
Definition dcf (m : mcol) : ccfg := cfg_of_flags (m_df m).

(* [to_migrate]: forced, or the options differ ([columns_to_migrate] of the metadata is empty) *)
Definition selected (m : mcol) : bool := m_force m || negb (m_sf m =? m_df m).
Definition has_btree (m : mcol) : bool := N.testbit (m_sf m) 4 || N.testbit (m_df m) 4.

Definition db := col -> key -> cell.
Definition empty_db : db := fun _ _ => None.
Definition set_col (D : db) (c : col) (f : key -> cell) : db := fun c' => if c' =? c then f else D c'.

(* a committed change set: every column sees the operations addressed to it, in order *)
Definition apply_db (cfgs : col -> ccfg) (ops : tx) (D : db) : db := fun c => apply_ops (cfgs c) c ops (D c).
Definition apply_batches (cfgs : col -> ccfg) (bs : list tx) (D : db) : db :=
  fold_left (fun D b => apply_db cfgs b D) bs D.

(* the callback of [iter_column_index_while]: push, count, commit when the count reaches [n].
   [cur] is the change set being filled; the result is the list of change sets committed and the one
   still being filled *)
Fixpoint batches_of (n : nat) (cur : tx) (ops : tx) : list tx * tx :=
  match ops with
  | [] => ([], cur)
  | o :: rest =>
      let cur' := cur ++ [o] in
      if Nat.eqb (length cur') n then let '(bs, r) := batches_of n [] rest in (cur' :: bs, r)
      else batches_of n cur' rest
  end.

(* the logical content of a source column as the iteration enumerates it *)
Definition src_cell (src : scontent) : key -> cell :=
  fun k => match lookup_src src k with
           | Some (v, rc) => if rc =? 0 then None else Some (v, rc)
           | None => None
           end.

(* the loop over the columns. State: the change set being filled, the destination, the source. *)
Fixpoint drive (n : nat) (ow : bool) (cfgs : col -> ccfg) (c : col) (cols : list mcol) (srcs : list scontent)
               (cur : tx) (D S : db) : tx * db * db :=
  match cols with
  | [] => (cur, D, S)
  | m :: cols' =>
      let src := hd [] srcs in
      if selected m then
        let '(bs, cur') := batches_of n cur (migrate_ops c src) in
        let D1 := apply_batches cfgs bs D in
        if ow then
          (* commit the remainder, reopen (flush), move the column's files: destination -> source *)
          let D2 := apply_db cfgs cur' D1 in
          drive n ow cfgs (c + 1) cols' (tl srcs) [] (set_col D2 c (fun _ => None)) (set_col S c (D2 c))
        else drive n ow cfgs (c + 1) cols' (tl srcs) cur' D1 S
      else if ow then drive n ow cfgs (c + 1) cols' (tl srcs) cur D S                 (* continue *)
      else drive n ow cfgs (c + 1) cols' (tl srcs) cur (set_col D c (S c)) S         (* copy_column *)
  end.

(* the destination's column options *)
Fixpoint dcfgs (c : col) (cols : list mcol) : col -> ccfg :=
  match cols with
  | [] => fun _ => cfg_of_flags 0
  | m :: cols' => fun c' => if c' =? c then dcf m else dcfgs (c + 1) cols' c'
  end.

Inductive mres := MgErr (e : N) | MgOk (S' D' : db).

(* [migrate from to overwrite force]: [ndst] is the number of columns of [to]; [S] the source content,
   [srcs] its enumeration column by column. The destination directory is assumed fresh. *)
Definition migrate_driver (n : nat) (cols : list mcol) (ndst : nat) (ow : bool) (srcs : list scontent) (S : db) : mres :=
  if negb (Nat.eqb (length cols) ndst) then MgErr 1
  else if existsb (fun m => selected m && has_btree m) cols then MgErr 2
  else let '(cur, D, S') := drive n ow (dcfgs 0 cols) 0 cols srcs [] empty_db S in
       MgOk S' (apply_db (dcfgs 0 cols) cur D).

(* ---- what the call must produce ---- *)
Definition migrated_col (m : mcol) (src : scontent) : key -> cell :=
  fun k => match lookup_src src k with Some (v, rc) => expected (dcf m) v rc | None => None end.

(* columns c, c+1, ... of the result: re-populated when selected, the source's column otherwise;
   [base] everywhere else *)
Fixpoint spec_db (c : col) (cols : list mcol) (srcs : list scontent) (S base : db) : db :=
  match cols with
  | [] => base
  | m :: cols' => fun c' =>
      if c' =? c then (if selected m then migrated_col m (hd [] srcs) else S c)
      else spec_db (c + 1) cols' (tl srcs) S base c'
  end.

(* the source database described by its enumeration *)
Definition src_db (srcs : list scontent) : db := fun c => src_cell (nth (N.to_nat c) srcs []).
