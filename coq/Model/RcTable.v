(* C10 / C11, counter level: the reference count table of a multitree column as src/ref_count.rs and
   src/column.rs keep it - a current table with 2^bits chunks of 32 counters, older (outgrown) tables waiting
   in the reindex queue, an entry (address, count) in the first free slot of the chunk its address hashes to -
   and the operations that change it: a node gains a reference (write_address_inc_ref_plan), loses one
   (write_address_dec_ref_plan), the reindex worker moves a batch of counters from the oldest waiting table into
   the current one and finally drops it (HashColumn::reindex + write_ref_count_reindex_plan), a restart.

   Only nodes with MORE than one reference have an entry; a node without entry has exactly one.
   The hash of an address (SipHash of the 64-bit address) is an input: every operation carries it, and the model
   keeps it beside the entry (a ghost field: the file holds address and count only) so that moving an entry
   to a bigger table can place it.
   Definitions only. *)
From Coq Require Import NArith List Bool Arith.
From PDB Require Import Gen.Consts.
Import ListNotations.
Open Scope N_scope.

Record rentry := { r_addr : N; r_hash : N; r_count : N }.
Definition rslot := option rentry.
Record rtab := { t_bits : N; t_chunks : list (N * list rslot) }.     (* chunk number -> its 32 slots; absent = empty *)
Record rstate := { rcur : rtab; rqueue : list rtab (* oldest first *); rprogress : N }.

Definition rc_nslots : nat := N.to_nat refcount_chunk_entries.
Definition chunk_of (bits hash : N) : N := hash / 2 ^ (64 - bits).    (* RefCountTable::chunk_index *)

Fixpoint clookup (l : list (N * list rslot)) (k : N) : option (list rslot) :=
  match l with [] => None | (k', v) :: r => if k' =? k then Some v else clookup r k end.
Fixpoint cremove (l : list (N * list rslot)) (k : N) : list (N * list rslot) :=
  match l with [] => [] | (k', v) :: r => if k' =? k then cremove r k else (k', v) :: cremove r k end.
Definition cset (l : list (N * list rslot)) (k : N) (v : list rslot) : list (N * list rslot) := (k, v) :: cremove l k.

Definition get_chunk (t : rtab) (c : N) : list rslot :=
  match clookup (t_chunks t) c with Some s => s | None => repeat None rc_nslots end.
Definition set_chunk (t : rtab) (c : N) (s : list rslot) : rtab := {| t_bits := t_bits t; t_chunks := cset (t_chunks t) c s |}.

Fixpoint set_nth (l : list rslot) (n : nat) (x : rslot) : list rslot :=
  match l, n with
  | [], _ => []
  | _ :: r, O => x :: r
  | a :: r, S n' => a :: set_nth r n' x
  end.
(* plan_insert_chunk without a slot: the first empty slot, or no room *)
Fixpoint first_free (l : list rslot) (i : nat) : option nat :=
  match l with
  | [] => None
  | None :: _ => Some i
  | Some _ :: r => first_free r (S i)
  end.
(* find_entry_base: the first slot that holds the address *)
Fixpoint find_addr (l : list rslot) (i : nat) (a : N) : option (nat * N) :=
  match l with
  | [] => None
  | Some e :: r => if r_addr e =? a then Some (i, r_count e) else find_addr r (S i) a
  | None :: r => find_addr r (S i) a
  end.

Definition tfind (t : rtab) (a h : N) : option (nat * N) := find_addr (get_chunk t (chunk_of (t_bits t) h)) 0 a.
Definition tput (t : rtab) (h : N) (i : nat) (x : rslot) : rtab :=
  let ci := chunk_of (t_bits t) h in set_chunk t ci (set_nth (get_chunk t ci) i x).
Definition tinsert (t : rtab) (a h c : N) : option rtab :=
  match first_free (get_chunk t (chunk_of (t_bits t) h)) 0 with
  | Some i => Some (tput t h i (Some {| r_addr := a; r_hash := h; r_count := c |}))
  | None => None
  end.
(* write_remove_plan at the slot the search returned *)
Definition tremove (t : rtab) (a h : N) : rtab :=
  match tfind t a h with Some (i, _) => tput t h i None | None => t end.

Definition with_cur (st : rstate) (t : rtab) : rstate := {| rcur := t; rqueue := rqueue st; rprogress := rprogress st |}.

(* trigger_ref_count_reindex: the current table joins the queue, a new empty one with one more bit *)
Definition rgrow (st : rstate) : rstate :=
  {| rcur := {| t_bits := t_bits (rcur st) + 1; t_chunks := [] |}; rqueue := rqueue st ++ [rcur st]; rprogress := rprogress st |}.

(* write_ref_count_plan_new: insert into the current table, growing while the chunk is full (a new table is
   empty: one growth is enough) *)
Definition rinsert_cur (st : rstate) (a h c : N) : rstate :=
  match tinsert (rcur st) a h c with
  | Some t => with_cur st t
  | None =>
      let st' := rgrow st in
      match tinsert (rcur st') a h c with
      | Some t => with_cur st' t
      | None => st'
      end
  end.

(* search_all_ref_count: the current table, then the waiting ones, NEWEST first *)
Fixpoint qfind (q : list rtab) (a h : N) : option (nat * N) :=
  match q with
  | [] => None
  | t :: r => match tfind t a h with Some x => Some x | None => qfind r a h end
  end.
(* in the current table?, slot, count *)
Definition rsearch (st : rstate) (a h : N) : option (bool * nat * N) :=
  match tfind (rcur st) a h with
  | Some (i, c) => Some (true, i, c)
  | None => match qfind (rev (rqueue st)) a h with Some (i, c) => Some (false, i, c) | None => None end
  end.
Definition rlookup (st : rstate) (a h : N) : option N :=
  match rsearch st a h with Some (_, _, c) => Some c | None => None end.

(* write_address_inc_ref_plan *)
Definition op_inc (st : rstate) (a h : N) : rstate :=
  match rsearch st a h with
  | Some (true, i, c) => with_cur st (tput (rcur st) h i (Some {| r_addr := a; r_hash := h; r_count := c + 1 |}))
  | Some (false, _, c) => rinsert_cur st a h (c + 1)      (* found in an older table: a new entry in the current one, the old one stays behind *)
  | None => rinsert_cur st a h 2                          (* no entry: exactly one reference so far *)
  end.

(* the entry is removed from every table, so that a waiting table cannot bring it back *)
Definition remove_all (st : rstate) (a h : N) : rstate :=
  {| rcur := tremove (rcur st) a h; rqueue := map (fun t => tremove t a h) (rqueue st); rprogress := rprogress st |}.

(* write_address_dec_ref_plan for an address that has an entry; without entry the node itself is released
   (no table is touched) *)
Definition op_dec (st : rstate) (a h : N) : rstate :=
  match rsearch st a h with
  | Some (incur, i, c) =>
      if 2 <? c then
        if incur then with_cur st (tput (rcur st) h i (Some {| r_addr := a; r_hash := h; r_count := c - 1 |}))
        else rinsert_cur st a h (c - 1)
      else remove_all st a h
  | None => st
  end.

(* HashColumn::reindex for a reference count table + DbInner::process_reindex: whole chunks of the oldest waiting
   table, from [progress] on, until the batch holds max_reindex_batch entries or the table is exhausted; every entry
   is inserted into the current table unless the current table or a younger waiting table already has the address
   (write_ref_count_reindex_plan); an exhausted table is dropped. *)
Definition chunk_entries (s : list rslot) : list rentry := flat_map (fun x => match x with Some e => [e] | None => [] end) s.
Fixpoint insert_sorted (p : N) (l : list N) : list N :=
  match l with [] => [p] | x :: r => if p <? x then p :: l else if p =? x then l else x :: insert_sorted p r end.
Definition nonempty_chunk (g : rtab) (p : N) : bool := match chunk_entries (get_chunk g p) with [] => false | _ => true end.
Definition chunks_from (g : rtab) (from : N) : list N :=
  fold_left (fun acc pe => if (from <=? fst pe) && nonempty_chunk g (fst pe) then insert_sorted (fst pe) acc else acc) (t_chunks g) [].
Fixpoint take_chunks (g : rtab) (ps : list N) (acc : list rentry) : list rentry * option N :=
  match ps with
  | [] => (acc, None)
  | p :: r =>
      let acc' := acc ++ chunk_entries (get_chunk g p) in
      if column_max_reindex_batch <=? N.of_nat (length acc') then
        (acc', if p + 1 =? 2 ^ t_bits g then None else Some (p + 1))
      else take_chunks g r acc'
  end.
Definition held_elsewhere (st : rstate) (a h : N) : bool :=
  match tfind (rcur st) a h with
  | Some _ => true
  | None => existsb (fun t => match tfind t a h with Some _ => true | None => false end) (tl (rqueue st))
  end.
Definition move_entry (st : rstate) (e : rentry) : rstate :=
  if held_elsewhere st (r_addr e) (r_hash e) then st else rinsert_cur st (r_addr e) (r_hash e) (r_count e).
Definition op_reindex (st : rstate) : rstate :=
  match rqueue st with
  | [] => st
  | g :: _ =>
      let '(es, next) := take_chunks g (chunks_from g (rprogress st)) [] in
      let st1 := fold_left move_entry es st in
      match next with
      | Some p => {| rcur := rcur st1; rqueue := rqueue st1; rprogress := p |}
      | None => {| rcur := rcur st1; rqueue := tl (rqueue st1); rprogress := 0 |}
      end
  end.

(* a restart forgets how far the oldest table was moved *)
Definition op_restart (st : rstate) : rstate := {| rcur := rcur st; rqueue := rqueue st; rprogress := 0 |}.

Inductive rop := RInc (a h : N) | RDec (a h : N) | RReindex | RRestart.
Definition rstep (st : rstate) (o : rop) : rstate :=
  match o with
  | RInc a h => op_inc st a h
  | RDec a h => op_dec st a h
  | RReindex => op_reindex st
  | RRestart => op_restart st
  end.
Definition rinit (bits : N) : rstate := {| rcur := {| t_bits := bits; t_chunks := [] |}; rqueue := []; rprogress := 0 |}.
