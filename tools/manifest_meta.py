HOOK_COMMITS = ["750f9bc", "3015f81"]
NOT_CLAIMED = {}
STD_NOTE = ("Trusted: Coq kernel (no axioms), extraction with ExtrOcamlBasic, driver text glue, Rust harness and hooks. "
            "The model is hand-written; what ties it to /repo is the differential run on every check. ")
META = {
 "C19": {"text": "Theorems C19_sse2_is_spec / C19_result_characterised / C19_no_miss / C19_equal_from_18_bits hold for every page, key, start position and index size 16..49 of a lane-level Gallina model of find_entry_sse2 and find_entry_base; the model is tied to the code on every run by executing both private search functions (hook H1) and the extracted model on the same generated pages and comparing results exactly.",
         "note": STD_NOTE + "The model of the SSE2 intrinsics is validated only by the differential run; index sizes >= 50 are outside the theorem."},
 "C01": {"text": "C01_reads_are_spec: for every configuration and every history of commits interleaved with every pipeline-stage step (log, flush, enact one record / one file, reclaim, clean close+reopen) a point read on an uncounted column equals the last accepted write, with its size - proved by invariant over a three-layer model (commit overlay tagged by commit id, log overlay tagged by record id, tables) including the planner, kill_logs and replay. Tie: the real Db driven through the stepping API vs the extracted model, every key read after every step.",
         "note": STD_NOTE + "Index/value-table internals are abstracted to per-key cells here (C06/C09/C14 cover them); stage steps are atomic (thread interleavings: C05); key-hash injectivity and compressor round-trip assumed."},
 "C03": {"text": "C03_close_persists_all: for every history and every pipeline state at the moment of drop, after kill_logs (exact order, including log files it leaves un-enacted) and open's replay, nothing is queued, no log is left and the tables alone hold every accepted write. Tie: drops at random pipeline states through the real Db vs the extracted model.",
         "note": STD_NOTE + "Clean-shutdown half at pipeline-model level without background threads; the crash half (synced records survive) belongs to the C02/C12 checks; threaded shutdown to C15."},
}
