#!/usr/bin/env python3
"""mk_mut_prompt.py PID [suffix] : create a scratch worktree /tmp/wt-<pid><suffix> and the prompt file /tmp/prompt-<PID><suffix>.txt for a mutation sub-agent."""
import json, subprocess, sys
pid = sys.argv[1]; suf = sys.argv[2] if len(sys.argv) > 2 else ""
extra = sys.argv[3] if len(sys.argv) > 3 else ""
wt = f"/tmp/wt-{pid.lower()}{suf}"
subprocess.run(["git", "-C", "/repo", "worktree", "add", "-q", "--detach", wt, "HEAD"], check=True)
tmpl = open("/verif/tools/mut_prompt.tmpl").read()
props = {json.loads(l)['id']: json.loads(l) for l in open('/verif/properties.jsonl')}
p = props[pid]
open(f'/tmp/prompt-{pid}{suf}.txt', 'w').write(tmpl.format(wt=wt, pid=pid, pidl=pid.lower(), title=p['title'], statement=p['statement'],
     quant=p['quantifier']['text'], files=', '.join(p['anchors']['files']), extra=extra))
print(f"/tmp/prompt-{pid}{suf}.txt", wt)
