"""Shared machinery of ./check: build steps, audit, sharded correspondence runs, verdicts, evidence."""
import fcntl, hashlib, json, os, re, shutil, subprocess, sys, time

VERIF = os.path.dirname(os.path.dirname(os.path.abspath(__file__)))
REPO = os.environ.get("VERIF_REPO", "/repo")
COQ = os.path.join(VERIF, "coq")
DRIVER_DIR = os.path.join(VERIF, "driver")
DRIVER = os.path.join(DRIVER_DIR, "driver")
HARNESS_DIR = os.path.join(VERIF, "harness")
HARNESS = os.path.join(HARNESS_DIR, "target", "release", "verif-harness")
WORK = os.path.join(VERIF, "work")
NPROC = os.cpu_count() or 4

FORBIDDEN = re.compile(
    r"\b(Admitted|admit|Axiom|Axioms|Parameter|Parameters|Conjecture|Conjectures|Hypothesis|Hypotheses|Variable|Variables)\b"
    r"|Unset\s+Guard|bypass_check|Admit\s+Obligations|type-in-type|impredicative-set|Unset\s+Universe\s+Checking|Unset\s+Positivity")

ALLOWED_AXIOMS = set()  # every property theorem must be closed under the global context

TRUSTED_BASE = [
    "Coq 8.16.1 kernel via coqc (full .vo build, vm_compute used for finite sweeps; native_compute not used)",
    "axioms: none (every property theorem prints 'Closed under the global context')",
    "tools/gen_consts.py (regex translator of Rust literals into coq/Gen/Consts.v)",
    "extraction with ExtrOcamlBasic only (bool, option, unit, list, prod, sumbool, sumor; andb/orb inlined); no other Extract directive",
    "driver/main.ml (hex text <-> extracted N), OCaml 4.13.1",
    "Rust harness under /verif/harness (generators, oracles, raw-file parsers) and the hooks guarded by --cfg parity_db_verif",
    "modelled rather than verified: the Rust control flow is re-stated by hand in coq/Model/*.v; only constants are translated mechanically",
]


def log(*a):
    print(*a, flush=True)


def sh(cmd, cwd=None, timeout=None, env=None, capture=True):
    e = dict(os.environ)
    e.setdefault("CARGO_NET_OFFLINE", "true")
    if env:
        e.update(env)
    try:
        p = subprocess.run(cmd, cwd=cwd, shell=isinstance(cmd, str), timeout=timeout, env=e,
                           stdout=subprocess.PIPE if capture else None,
                           stderr=subprocess.STDOUT if capture else None, text=True)
        return p.returncode, (p.stdout or "")
    except subprocess.TimeoutExpired as ex:
        out = ex.stdout or ""
        if isinstance(out, bytes):
            out = out.decode(errors="replace")
        return 124, out + "\n[timeout]"


class BuildLock:
    def __enter__(self):
        os.makedirs(WORK, exist_ok=True)
        self.f = open(os.path.join(WORK, ".build.lock"), "w")
        fcntl.flock(self.f, fcntl.LOCK_EX)
        return self

    def __exit__(self, *a):
        fcntl.flock(self.f, fcntl.LOCK_UN)
        self.f.close()


# ------------------------------------------------------------------ Coq side

def gen_consts():
    rc, out = sh([sys.executable, os.path.join(VERIF, "tools", "gen_consts.py")])
    return rc == 0, out.strip()


def coq_makefile():
    mk = os.path.join(COQ, "Makefile")
    proj = os.path.join(COQ, "_CoqProject")
    if not os.path.exists(mk) or os.path.getmtime(mk) < os.path.getmtime(proj):
        sh("coq_makefile -f _CoqProject -o Makefile", cwd=COQ)


def coq_make(targets, timeout=1500):
    """Build the given .vo targets (full .vo build). Returns (ok, output)."""
    coq_makefile()
    rc, out = sh(["make", "-j%d" % NPROC] + targets, cwd=COQ, timeout=timeout)
    return rc == 0, out


def source_audit(files):
    """grep the development for anything that declares an axiom or switches off a kernel check."""
    hits = []
    for f in files:
        path = os.path.join(COQ, f)
        text = open(path).read()
        # strip comments (nested)
        out, depth, i = [], 0, 0
        while i < len(text):
            if text.startswith("(*", i):
                depth += 1; i += 2
            elif text.startswith("*)", i) and depth > 0:
                depth -= 1; i += 2
            else:
                if depth == 0:
                    out.append(text[i])
                elif text[i] == "\n":
                    out.append("\n")
                i += 1
        code = "".join(out)
        in_section = 0
        for ln, line in enumerate(code.split("\n"), 1):
            if re.match(r"\s*Section\b", line):
                in_section += 1
            if re.match(r"\s*End\b", line) and in_section > 0:
                in_section -= 1
            for m in FORBIDDEN.finditer(line):
                w = m.group(0)
                if w.split()[0] in ("Variable", "Variables", "Hypothesis", "Hypotheses") and in_section > 0:
                    continue
                hits.append(f"{f}:{ln}: {w}")
    return hits


def coq_deps(prop_file):
    """All project .v files the property file depends on (transitively), from coqdep."""
    rc, out = sh("coqdep -f _CoqProject 2>/dev/null", cwd=COQ)
    deps = {}
    for line in out.splitlines():
        if ":" not in line:
            continue
        lhs, rhs = line.split(":", 1)
        tgt = [t for t in lhs.split() if t.endswith(".vo")]
        if not tgt:
            continue
        deps[tgt[0]] = [d[:-1] for d in rhs.split() if d.endswith(".vo") and not d.startswith("/")]
    seen, todo = set(), [prop_file[:-2] + ".vo" if prop_file.endswith(".v") else prop_file]
    while todo:
        t = todo.pop()
        if t in seen:
            continue
        seen.add(t)
        for d in deps.get(t, []):
            todo.append(d + "o" if d.endswith(".v") else d)
    return sorted(s[:-1] for s in seen)


def print_assumptions(module, theorems):
    """Fresh coqc run printing the assumptions of each theorem; returns {thm: text}."""
    os.makedirs(WORK, exist_ok=True)
    name = "Audit_" + module.replace(".", "_")
    path = os.path.join(WORK, name + ".v")
    with open(path, "w") as f:
        f.write(f"From PDB Require Import {module}.\n")
        for t in theorems:
            f.write(f'Print Assumptions {t}.\n')
    rc, out = sh(["coqc", "-noglob", "-Q", COQ, "PDB", path], cwd=WORK, timeout=600)
    res = {}
    if rc != 0:
        return None, out
    chunks = re.split(r"(?=Closed under the global context|Axioms:)", out)
    chunks = [c for c in chunks if c.strip()]
    for t, c in zip(theorems, chunks):
        res[t] = c.strip()
    if len(chunks) != len(theorems):
        return None, out
    return res, out


def build_driver():
    ml = os.path.join(DRIVER_DIR, "model.ml")
    if not os.path.exists(ml):
        return False, "driver/model.ml missing (extraction did not run)"
    stamp = os.path.join(DRIVER_DIR, ".stamp")
    h = hashlib.sha256()
    for f in ("model.ml", "model.mli", "main.ml"):
        h.update(open(os.path.join(DRIVER_DIR, f), "rb").read())
    if os.path.exists(DRIVER) and os.path.exists(stamp) and open(stamp).read() == h.hexdigest():
        return True, "driver up to date"
    rc, out = sh("ocamlfind ocamlopt -O3 -w -a model.mli model.ml main.ml -o driver", cwd=DRIVER_DIR, timeout=600)
    if rc == 0:
        open(stamp, "w").write(h.hexdigest())
    return rc == 0, out


def build_harness():
    lock_src = os.path.join(REPO, "Cargo.lock")
    rc, out = sh(["cargo", "build", "--release", "--offline"], cwd=HARNESS_DIR, timeout=1500)
    return rc == 0, out


def repo_state():
    rc, head = sh(["git", "-C", REPO, "rev-parse", "HEAD"])
    rc2, dirty = sh(["git", "-C", REPO, "status", "--porcelain", "--untracked-files=no"])
    return head.strip(), bool(dirty.strip())


# ------------------------------------------------------------------ correspondence runs

def scratch_dir(tag):
    base = "/dev/shm" if os.path.isdir("/dev/shm") and os.access("/dev/shm", os.W_OK) else WORK
    d = os.path.join(base, f"verif-{tag}-{os.getpid()}")
    shutil.rmtree(d, ignore_errors=True)
    os.makedirs(d)
    return d


def run_parallel(cmds, timeout):
    """cmds: list of (argv, stdout_path or None, env). Runs up to NPROC at a time. Returns list of rc."""
    procs, rcs = [], [None] * len(cmds)
    pending = list(enumerate(cmds))
    running = []
    t0 = time.time()
    while pending or running:
        while pending and len(running) < NPROC:
            i, (argv, outp, env) = pending.pop(0)
            e = dict(os.environ)
            if env:
                e.update(env)
            fo = open(outp, "w") if outp else subprocess.DEVNULL
            pre = None
            p = subprocess.Popen(argv, stdout=fo, stderr=open(outp + ".err", "w") if outp else subprocess.DEVNULL, env=e,
                                 preexec_fn=_unlimit_stack)
            running.append((i, p, fo))
        still = []
        for i, p, fo in running:
            r = p.poll()
            if r is None:
                if time.time() - t0 > timeout:
                    p.kill()
                    rcs[i] = 124
                    if fo not in (None, subprocess.DEVNULL):
                        fo.close()
                else:
                    still.append((i, p, fo))
            else:
                rcs[i] = r
                if fo not in (None, subprocess.DEVNULL):
                    fo.close()
        running = still
        if running:
            time.sleep(0.02)
    return rcs


def _unlimit_stack():
    import resource
    try:
        resource.setrlimit(resource.RLIMIT_STACK, (resource.RLIM_INFINITY, resource.RLIM_INFINITY))
    except Exception:
        try:
            soft, hard = resource.getrlimit(resource.RLIMIT_STACK)
            resource.setrlimit(resource.RLIMIT_STACK, (hard, hard))
        except Exception:
            pass


def k1_run(subcmd, seed, total, shards, scratch, extra_args=(), timeout=3000, corpus=(), regen=None):
    """Run the harness subcommand in `shards` processes, then the driver on each shard's cases.
    Returns dict with per-case comparison results.
    regen = {"seed": shard seed, "count": n, "only": case number}: regenerate and run exactly that case of that
    shard (every case has its own PRNG stream derived from the shard seed and its number)."""
    per = max(1, total // shards)
    cmds = []
    dirs = []
    shard_seeds = []
    if regen:
        shards = 1
    for s in range(shards):
        d = os.path.join(scratch, f"{subcmd}-s{s}")
        dirs.append(d)
        sseed = int(regen["seed"]) if regen else (seed * 1000003 + s) & 0xFFFFFFFFFFFF
        n = int(regen["count"]) if regen else per
        shard_seeds.append((sseed, n))
        argv = [HARNESS, subcmd, str(sseed), str(n), d] + list(extra_args)
        if s == 0:
            argv += list(corpus)
        cmds.append((argv, os.path.join(scratch, f"{subcmd}-s{s}.hlog"), {"VERIF_ONLY": str(int(regen["only"]))} if regen else None))

    def regen_of(si, case_no):
        if case_no is None or case_no < 0:
            return None
        return {"subcmd": subcmd, "seed": shard_seeds[si][0], "count": shard_seeds[si][1], "only": case_no, "extra_args": list(extra_args)}
    t0 = time.time()
    rcs = run_parallel(cmds, timeout)
    t_impl = time.time() - t0
    bad = [(i, rc) for i, rc in enumerate(rcs) if rc != 0]
    res = {"dirs": dirs, "harness_failures": [], "mismatches": [], "oracle_failures": [], "cases": 0,
           "stats": [], "t_impl": t_impl}
    hung = set()
    for i, rc in bad:
        hp = os.path.join(dirs[i], "hang.txt")
        if os.path.exists(hp):
            # the per-case watchdog of the harness: the implementation did not finish this case
            parts = open(hp).read().split("\n")
            limit, line = parts[0], (parts[1] if len(parts) > 1 else "")
            cno = int(parts[2]) if len(parts) > 2 and parts[2].strip().isdigit() else None
            res["oracle_failures"].append({"shard": i, "index": -1, "case": line.strip(), "impl": "",
                                           "oracle": f"FAIL hang the implementation did not finish this case within {limit.strip()} s",
                                           "regen": regen_of(i, cno)})
            hung.add(i)
            continue
        errtxt = ""
        try:
            errtxt = open(os.path.join(scratch, f"{subcmd}-s{i}.hlog.err")).read()[-2000:]
        except Exception:
            pass
        res["harness_failures"].append({"shard": i, "rc": rc, "stderr": errtxt})
    t0 = time.time()
    dcmds = [([DRIVER, os.path.join(d, "cases.txt")], os.path.join(d, "model.txt"), None) for d in dirs
             if os.path.exists(os.path.join(d, "cases.txt"))]
    drcs = run_parallel(dcmds, timeout)
    res["t_model"] = time.time() - t0
    for (argv, outp, _), rc in zip(dcmds, drcs):
        if rc != 0:
            res["harness_failures"].append({"driver": argv[1], "rc": rc})
    for si, d in enumerate(dirs):
        if si in hung:
            continue    # its output files end in the middle of a case
        try:
            cases = open(os.path.join(d, "cases.txt")).read().splitlines()
            impl = open(os.path.join(d, "impl.txt")).read().splitlines()
            model = open(os.path.join(d, "model.txt")).read().splitlines()
        except FileNotFoundError:
            continue
        oracle = []
        op = os.path.join(d, "oracle.txt")
        if os.path.exists(op):
            oracle = open(op).read().splitlines()
        # number of the loop iteration that produced each case line (absent for corpus cases: 18446744073709551615)
        cnos = []
        ip = os.path.join(d, "index.txt")
        if os.path.exists(ip):
            cnos = [int(x) if x.strip().isdigit() and int(x) < (1 << 63) else None for x in open(ip).read().splitlines()]
        cno = lambda ci: cnos[ci] if ci < len(cnos) else None
        res["cases"] += len(cases)
        for ci in range(len(cases)):
            im = impl[ci] if ci < len(impl) else "<missing>"
            mo = model[ci] if ci < len(model) else "<missing>"
            if im != mo:
                res["mismatches"].append({"shard": si, "index": ci, "case": cases[ci], "impl": im, "model": mo,
                                          "oracle": oracle[ci] if ci < len(oracle) else "?", "regen": regen_of(si, cno(ci))})
        for ci, o in enumerate(oracle):
            if not o.startswith("ok"):
                res["oracle_failures"].append({"shard": si, "index": ci, "case": cases[ci] if ci < len(cases) else "",
                                               "impl": impl[ci] if ci < len(impl) else "", "oracle": o,
                                               "regen": regen_of(si, cno(ci))})
        sp = os.path.join(d, "stats.json")
        if os.path.exists(sp):
            try:
                res["stats"].append(json.load(open(sp)))
            except Exception as ex:
                res["harness_failures"].append({"shard": si, "stats": str(ex)})
    return res


def merge_stats(stats):
    tot = {"evaluations": 0, "distinct_nontrivial": 0, "distribution": {}}
    for s in stats:
        tot["evaluations"] += s.get("evaluations", 0)
        tot["distinct_nontrivial"] += s.get("distinct_nontrivial", 0)
        for k, v in s.get("distribution", {}).items():
            tot["distribution"][k] = tot["distribution"].get(k, 0) + v
    return tot


# ------------------------------------------------------------------ findings / evidence

def load_known():
    p = os.path.join(VERIF, "known_findings.json")
    if not os.path.exists(p):
        return []
    return json.load(open(p)).get("findings", [])


def classify(pid, oracle_line):
    """An oracle failure line has the form `FAIL <class> <free text>`; the class is what a known finding matches."""
    parts = oracle_line.split(None, 2)
    return parts[1] if len(parts) > 1 else "unclassified"


def write_replay(pid, seed, payload):
    d = os.path.join(VERIF, "replays")
    os.makedirs(d, exist_ok=True)
    p = os.path.join(d, f"{pid}-{seed}.json")
    json.dump(payload, open(p, "w"), indent=1)
    return p


def write_evidence(pid, tier, seed, level, coverage, assumptions, wall, violations):
    d = os.path.join(VERIF, "evidence")
    os.makedirs(d, exist_ok=True)
    ev = {"property_id": pid, "tier": tier, "seed": seed, "level": level, "coverage": coverage,
          "assumptions": assumptions, "wall_s": round(wall, 2), "violations": violations}
    json.dump(ev, open(os.path.join(d, f"{pid}.json"), "w"), indent=1)
