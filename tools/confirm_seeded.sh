#!/bin/bash
# usage: confirm_seeded.sh <worktree> <pid-lowercase>   -> prints a summary; exit 0 if all three facts hold
wt=$1; p=$2
cd "$wt" || exit 2
export CARGO_NET_OFFLINE=true
echo "== suite with change"
suite=$(cargo test --offline --lib 2>&1 | grep -E "^test result" | head -1)
echo "$suite"
echo "== demo with change (must fail)"
cargo test --offline --features instrumentation --test demo_$p > /tmp/demo_with_$p.log 2>&1; rc_with=$?
grep -E "^test result|panicked" /tmp/demo_with_$p.log | head -3
git diff -- src > /tmp/seed_$p.diff
git checkout -- src
echo "== demo without change (must pass)"
cargo test --offline --features instrumentation --test demo_$p > /tmp/demo_without_$p.log 2>&1; rc_without=$?
grep -E "^test result" /tmp/demo_without_$p.log | head -3
git apply /tmp/seed_$p.diff
echo "suite='$suite' rc_with=$rc_with rc_without=$rc_without"
if echo "$suite" | grep -q "36 passed; 0 failed" && [ $rc_with -ne 0 ] && [ $rc_without -eq 0 ]; then echo CONFIRMED; exit 0; else echo NOT-CONFIRMED; exit 1; fi
