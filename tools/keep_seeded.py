#!/usr/bin/env python3
"""keep_seeded.py <worktree> <PID> <slug> <needs...>: store a confirmed seeded change under /verif/seeded/<PID>-<slug>/"""
import json, os, shutil, subprocess, sys
wt, pid, slug = sys.argv[1], sys.argv[2], sys.argv[3]
needs = " ".join(sys.argv[4:])
d = f"/verif/seeded/{pid}-{slug}"
os.makedirs(d, exist_ok=True)
diff = subprocess.run(["git", "-C", wt, "diff", "--", "src"], capture_output=True, text=True).stdout
open(f"{d}/patch.diff", "w").write(diff)
demo = f"{wt}/tests/demo_{pid.lower()}.rs"
if os.path.exists(demo):
    shutil.copy(demo, f"{d}/demo_{pid.lower()}.rs")
if os.path.exists(f"{wt}/MUTATION.md"):
    shutil.copy(f"{wt}/MUTATION.md", f"{d}/MUTATION.md")
confirm = open(f"/tmp/confirm_{pid.lower()}.log").read() if os.path.exists(f"/tmp/confirm_{pid.lower()}.log") else ""
meta = {"property": pid, "needs_to_manifest": needs,
        "confirmed_by": "tools/confirm_seeded.sh in a scratch worktree: existing suite 36 passed with the change; demonstration fails with it and passes without it",
        "confirm_log_tail": confirm[-600:], "detected_by": [], "notes": ""}
json.dump(meta, open(f"{d}/meta.json", "w"), indent=1)
print("kept", d)
