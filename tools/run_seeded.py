#!/usr/bin/env python3
"""run_seeded.py [dir-substring...]: apply every kept seeded change to /repo in turn, run the quick check of its
property, report whether a VIOLATION was raised, undo the change. Writes seeded/REGRESSION.txt.
For seeds whose meta.json names another check as the detector (detected_by starts with ./check Cxx), that check is run."""
import json, os, re, subprocess, sys, time
V = "/verif"
sel = sys.argv[1:]
rows = []
# the checks rewrite evidence/ and replays/ on every run: what they write while a seeded change is applied must not
# stay (committed evidence comes from runs on the unchanged tree)
import shutil, tempfile
keep = tempfile.mkdtemp(prefix="seeded-keep-", dir="/dev/shm")
shutil.copytree(f"{V}/evidence", f"{keep}/evidence")
shutil.copytree(f"{V}/replays", f"{keep}/replays")
assert subprocess.run(["git", "-C", "/repo", "status", "--porcelain", "--untracked-files=no"], capture_output=True, text=True).stdout.strip() == "", "/repo not clean"
for d in sorted(os.listdir(f"{V}/seeded")):
    p = f"{V}/seeded/{d}"
    if not os.path.isdir(p) or (sel and not any(s in d for s in sel)):
        continue
    meta = json.load(open(f"{p}/meta.json"))
    pid = meta["property"]
    m = re.match(r"\./check (C\d\d)", (meta.get("detected_by") or [""])[0])
    chk = m.group(1) if m else pid
    r = subprocess.run(["git", "-C", "/repo", "apply", f"{p}/patch.diff"], capture_output=True, text=True)
    if r.returncode != 0:
        rows.append((d, chk, "PATCH-DOES-NOT-APPLY", 0)); continue
    t0 = time.time()
    try:
        out = subprocess.run([f"{V}/check", chk, "--tier", "quick"], capture_output=True, text=True, timeout=3000).stdout
    finally:
        subprocess.run(["git", "-C", "/repo", "checkout", "--", "."])
    viol = [l for l in out.splitlines() if l.startswith("VIOLATION")]
    nf = sum("no-failing-input-found" in l for l in viol)
    if meta.get("neutralised_by"):
        # a later repair made this change harmless (its demonstration passes with it): the check must stay silent
        rows.append((d, chk, (f"ALARM on a change that no longer breaks the property ({len(viol)} violation lines)" if viol
                              else f"silent, as it should be: neutralised by {meta['neutralised_by']}"), time.time() - t0))
        continue
    rows.append((d, chk, f"detected ({len(viol)} violation lines, {nf} without failing input)" if viol else "MISSED", time.time() - t0))
    print(rows[-1], flush=True)
for sub in ("evidence", "replays"):
    shutil.rmtree(f"{V}/{sub}")
    shutil.copytree(f"{keep}/{sub}", f"{V}/{sub}")
shutil.rmtree(keep)
# a partial run (names given) updates the rows of the file it has run again
prev = {}
if sel and os.path.exists(f"{V}/seeded/REGRESSION.txt"):
    for l in open(f"{V}/seeded/REGRESSION.txt").read().splitlines()[1:]:
        parts = [x.strip() for x in l.split("|")]
        if len(parts) == 4:
            prev[parts[0]] = l
with open(f"{V}/seeded/REGRESSION.txt", "w") as f:
    f.write("seeded change | check run | outcome | seconds\n")
    for r in rows:
        prev[r[0]] = f"{r[0]} | ./check {r[1]} --tier quick | {r[2]} | {r[3]:.0f}"
    for k in sorted(prev):
        f.write(prev[k] + "\n")
print("missed:", [r[0] for r in rows if r[2] == "MISSED"])
