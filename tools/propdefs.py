"""Per-property definitions: Coq module + theorems, correspondence runners, oracles' search."""
import glob, os
import vlib


def corpus_files(pid):
    return sorted(glob.glob(os.path.join(vlib.VERIF, "corpus", pid, "*.case")))


def k1_generic(P, tier, seed, scratch, replay, can_run):
    """One or several harness subcommands; cases compared line by line with the extracted model."""
    out = {"oracle_failures": [], "mismatches": [], "harness_failures": [], "tie_obligations": [], "notes": [],
           "evaluations": 0, "distinct_nontrivial": 0, "distribution": {}, "samples": []}
    subs = P.get("subcmds") or [(P["subcmd"], P["counts"])]
    if not can_run:
        out["harness_failures"].append({"what": "driver or harness did not build"})
        out["tie_obligations"].append({"name": f"K1 {subs[0][0]} model = implementation", "ok": False})
        return out
    for idx, (subcmd, counts) in enumerate(subs):
        total = counts[tier]
        extra = list(P.get("extra_args", {}).get(tier, []))
        corpus = corpus_files(P["id"]) if idx == 0 else []
        regen = None
        if replay:
            import json
            rp = json.load(open(replay))
            regen = rp.get("regenerate")
            if regen:
                # the failing case is regenerated from its shard seed and case number and run again
                if regen.get("subcmd") != subcmd:
                    continue
                extra = list(regen.get("extra_args", extra))
                corpus = []
            else:
                cf = os.path.join(scratch, "replay.case")
                open(cf, "w").write(rp.get("case", "") + "\n")
                corpus = [cf] if idx == 0 else []
                total = 0
                if idx > 0:
                    continue
        shards = 1 if total < 64 else min(vlib.NPROC, P.get("shards", vlib.NPROC))
        r = vlib.k1_run(subcmd, seed, total, shards, scratch, extra_args=extra, corpus=corpus,
                        timeout=P.get("timeout", {}).get(tier, 3000), regen=regen)
        if P.get("beyond_known"):
            # once an OPEN known finding has manifested in a history (the oracle says so for that very case), the
            # state is outside the property and the model is not required to follow the code any further
            known_open = {k["class"] for k in vlib.load_known() if k.get("property") == P["id"] and k.get("status", "open") == "open"}
            beyond = [m for m in r["mismatches"] if m.get("oracle", "").startswith("FAIL") and vlib.classify(P["id"], m["oracle"]) in known_open]
            if beyond:
                r["mismatches"] = [m for m in r["mismatches"] if m not in beyond]
                out["notes"].append(f"{subcmd}: {len(beyond)} model/implementation differences on histories in which a known open finding "
                                    f"({', '.join(sorted({vlib.classify(P['id'], m['oracle']) for m in beyond}))}) had already manifested are attributed to that finding")
        st = vlib.merge_stats(r["stats"])
        out["oracle_failures"] += r["oracle_failures"]
        out["mismatches"] += r["mismatches"]
        out["harness_failures"] += r["harness_failures"]
        out["evaluations"] += st["evaluations"]
        out["distinct_nontrivial"] += st["distinct_nontrivial"]
        for k, v in st["distribution"].items():
            key = k if len(subs) == 1 else f"{subcmd}:{k}"
            out["distribution"][key] = out["distribution"].get(key, 0) + v
        out["tie_obligations"].append({"name": f"K1 {subcmd}: extracted model output = implementation output on {r['cases']} cases",
                                       "ok": not r["mismatches"] and not r["harness_failures"] and r["cases"] > 0})
        out["tie_obligations"].append({"name": f"property oracle accepts every implementation observation ({subcmd}, {r['cases']} cases)",
                                       "ok": not r["oracle_failures"]})
        for d in r["dirs"][:1]:
            try:
                cs = open(os.path.join(d, "cases.txt")).read().splitlines()[:2]
                im = open(os.path.join(d, "impl.txt")).read().splitlines()[:2]
                out["samples"] += [{"case": c[:600], "observation": i[:600]} for c, i in zip(cs, im)]
            except Exception:
                pass
        out["notes"].append(f"{subcmd}: impl {r['t_impl']:.1f}s, model {r.get('t_model', 0):.1f}s, shards {shards}")
    return out


def search_generic(P, seed, scratch):
    d = os.path.join(scratch, "search")
    os.makedirs(d, exist_ok=True)
    subs = P.get("subcmds") or [(P["subcmd"], P["counts"])]
    res = {"oracle_failures": []}
    for subcmd, counts in subs:
        r = vlib.k1_run(subcmd, seed + 7919, counts["search"], vlib.NPROC, d,
                        extra_args=list(P.get("extra_args", {}).get("search", [])), timeout=1200)
        res["oracle_failures"] += r["oracle_failures"]
    return res


PROPS = {}


def prop(**kw):
    kw.setdefault("run", k1_generic)
    kw.setdefault("search", search_generic)
    PROPS[kw["id"]] = kw


prop(
    id="C19", module="Properties.C19", vfile="Properties/C19.v", level="proof", subcmd="c19",
    theorems=["C19_sse2_is_spec", "C19_result_characterised", "C19_no_miss", "C19_equal_from_18_bits"],
    counts={"quick": 64000, "thorough": 4000000, "search": 1600000},
    rule="pages drawn from 7 classes (full random, sparse, duplicates of the key's partial key, zero partial key, "
         "entries differing only in the bits the fast path drops, single-bit near misses, zero fast pattern with "
         "non-zero exact key), bits 16..49 with 16/17/18/48/49 over-weighted, start 0..63; a case is non-trivial when "
         "at or after start the page holds both a slot agreeing with the key on the compared bits and a non-empty slot "
         "that does not; distinct = distinct (bits, key, start, page) hashes",
    assumptions=["index sizes 16..49 (address_bits <= 63); bits >= 50 cannot be represented by the code either",
                 "chunk entries < 2^64 (they are u64 in the implementation)"],
    explanation="find_entry_sse2 is modelled lane by lane; theorem for all pages/keys/starts; tie: both private search "
                "functions run through hook H1 on the same pages as the extracted model, outputs compared exactly",
)


HIST_RULE = ("histories of 8-40 steps over 1-3 columns (hash/btree, counted or not, preimage, uniform keys, "
             "none/lz4/snappy compression with thresholds 0/4096/max) and 3-9 keys per column; steps drawn from "
             "{commit of 1-5 operations, process one commit, flush log, enact to end of log file, enact one record, "
             "clean logs, drop + reopen}; value lengths from classes {0, <64, <4096, 4090-4100, 32700-32800 (single/"
             "multi-part boundary), up to 150000}; after EVERY step every key of every column is read with get and "
             "get_size. A history is non-trivial when some commit touches a (column, key) that an earlier commit, not "
             "yet enacted at that moment, also touches; distinct = distinct token sequences. One C01 / C07 history in eight is a growth history "
             "(see C09): 66-90 keys aimed at one index page, reindex batches between the commits, and a queue wave (2-6 queued commits writing the same "
             "1-3 keys, processed one at a time)")

prop(
    id="C01", module="Properties.C01", vfile="Properties/C01.v", level="proof", subcmd="c01",
    theorems=["C01_reads_are_spec"],
    counts={"quick": 1600, "thorough": 60000, "search": 8000},
    rule=HIST_RULE,
    assumptions=["key hash injective on the keys of a history (the harness uses distinct keys and the model identifies a key with its index)",
                 "lz4/snappy round-trip (observed through bit-exact reads)",
                 "pipeline stages are atomic steps of the model (thread interleavings inside a stage: C05)"],
    explanation="three-layer pipeline model (commit overlay / log overlay / tables) with the planner, kill_logs and replay; "
                "theorem by invariant over all histories; tie: stepping API of the real Db vs extracted model, every read after every step",
)
prop(
    id="C03", module="Properties.C03", vfile="Properties/C03.v", level="proof", subcmd="c03",
    theorems=["C03_close_persists_all", "CrashHalf.C03_synced_records_survive_crash", "CrashHalf.C03_synced_records_survive_power_loss"],
    counts={"quick": 1200, "thorough": 40000, "search": 8000},
    rule=HIST_RULE + "; C03 histories end with a drop + reopen and contain 2-4 further drops at random pipeline states",
    assumptions=["crash half of C03 (synced records survive a crash) is decided by the C02/C12 checks",
                 "without background threads (stepping API); threaded shutdown: C15"],
    explanation="kill_logs modelled in its exact order, leftover log files replayed at open; theorem: after drop+open the tables alone hold every accepted write",
)

prop(
    id="C07", module="Properties.C07", vfile="Properties/C07.v", level="proof", subcmd="c07",
    subcmds=[("c07", {"quick": 1600, "thorough": 60000, "search": 8000}), ("c09rc", {"quick": 160, "thorough": 6000, "search": 800})],
    theorems=["C07_positive_readable", "C07_logged_iff"],
    counts={"quick": 1600, "thorough": 60000, "search": 8000},
    rule=HIST_RULE + "; C07 histories use counted columns only (hash and btree), operations set / dereference / reference, "
         "value a fixed function of the key; in addition the value iteration of every hash counted column is taken after every step "
         "(judged by the oracle whenever nothing is queued, compared with the model after every reopen)",
    assumptions=["counts stay below the saturating 32-bit limit (the model counts in unbounded N)",
                 "crash recovery of counted columns is exercised by the C02 check"],
    explanation="same pipeline model; theorems by the cell-level invariant (logical cell = fold of accepted transactions) and a relation "
                "between stored counter and specified count",
)
prop(
    id="C08", module="Properties.C08", vfile="Properties/C08.v", level="proof", subcmd="c08",
    theorems=["C08_rejected_no_trace", "C08_bg_error_refusal", "C08_rejected_iff_invalid"],
    counts={"quick": 1600, "thorough": 60000, "search": 8000},
    rule=HIST_RULE + "; C08 histories contain a transaction with an invalid operation (reference on an uncounted column) at a random "
         "position among valid ones in about every 4th commit, across 1-3 columns of mixed kinds; the oracle demands that every read "
         "after the rejected call equals the read before it, now and after every later step and reopen",
    assumptions=["error classes covered here: reference on a column without counting (hash and btree); tree-operation classes are covered by the multitree checks (C10/C11)",
                 "background-error refusal is proved on the model and exercised by the C16 check"],
    explanation="commit of the pipeline model reproduces the order of checks and side effects of commit_changes/commit_raw; theorem: an error returns the unchanged state",
)

prop(
    id="C17", module="Properties.C17", vfile="Properties/C17.v", level="proof", subcmd="c17",
    theorems=["C17_options_roundtrip", "C17_validate_iff", "C17_validate_classes", "C17_prefixes_disjoint",
              "C17_drop_files_frame", "C17_drop_files_empties", "C17_non_column_files_kept"],
    counts={"quick": 1600, "thorough": 60000, "search": 8000},
    rule="(one administration database in twelve has 101-130 columns, of which column 10 - the target -, three of the columns 100.., two others and the multitree column hold data) "
         "four case families from one PRNG: (text) metadata file written by the real code for 0-6 columns drawn from all 384 option values, "
         "versions incl. unsupported ones, random salts - compared byte for byte with the model; (parse) that file or one of 10 damaged variants "
         "(deleted byte, bad bool, unknown compression, CRLF, trailing newline, missing salt, sizes marker, duplicate key, empty line, signed version) "
         "read by the real parser - result or error class compared; (validate) a database created with stored options opened with equal / longer / shorter / "
         "one-flag-different requested options - class compared, directory must be byte-identical after a refusal; (admin) add_column / drop_last_column / "
         "reset_column / clear_column on 1-4 column databases of mixed kinds with content, half of them crash images with unreplayed log records - "
         "removed file names compared with the model, full read-out judged by the oracle; (missing) open without create on a missing or empty directory. "
         "Non-trivial: every case except zero-column texts and validate cases with equal options",
    assumptions=["whole-file round trip for arbitrary column counts is checked by correspondence (the proved part is the per-column codec, exhaustively)",
                 "multitree columns are administered by the C10 check's databases, not here"],
    explanation="text codec modelled with the literal labels regenerated from options.rs; exhaustive kernel sweeps for the 384 option values and the 65536 column pairs",
)

prop(
    id="C09", module="Properties.C09", vfile="Properties/C09.v", level="proof", subcmd="c09",
    subcmds=[("c09", {"quick": 320, "thorough": 12000, "search": 1600}), ("c09e", {"quick": 32000, "thorough": 2000000, "search": 200000}),
             ("c09s", {"quick": 480, "thorough": 16000, "search": 1600})],
    theorems=["C09_entry_roundtrip", "C09_key_recovered", "C09_page_and_partial_key_identify", "C09_growth_preserves_reads", "Slots.C09_slot_index_lookup_is_spec"],
    counts={"quick": 320, "thorough": 12000, "search": 1600},
    rule="(c09s, slot level) 66-100 uniform keys under the zero salt aimed at one or two index pages (a sixth sharing the first 8 bytes with another key; in 'deep' "
         "mode 130-150 keys that also share bit 17, so that three index generations coexist), 100-270 operations in drained transactions of one change (a third: 2-5 changes of different keys; the files are compared after the transaction, the model takes the changes one by one in the order the code applies them): set (new key, same size "
         "tier, other size tier), remove, one reindex batch, drop + reopen; after EVERY operation every non-empty slot of the keys' pages in every index file is read raw "
         "(slot number, the 50 key bits the entry lets one recover, address) and compared with the generations the model's istep predicts; the address a value was put at "
         "is read back from the files and given to the model (the allocator is C14's subject); every key is read through the API as well. "
         "(c09) growth histories: column 0 is a uniform-key hash column under the zero salt (identity hash), 66-90 keys aimed at ONE index page "
         "(equal first two bytes), a sixth of them sharing page AND partial key with another key (equal first 8 bytes, different tail), another sixth "
         "separating only one or two index generations later; 25-60 steps of {commit of 1-24 operations, process, flush, enact, reindex batch, clean, "
         "drop+reopen} then a drain and a reopen; every key read after every step. Non-trivial = the index of column 0 actually grew (index_00_17 appeared); "
         "the evidence counts histories in which two index generations coexisted on disk. (c09e) entry packing / key recovery through hook H5 for random "
         "and boundary (bits, key prefix, address); plus, oracle only, one BULK growth history per 2000 codec cases: 2500-4000 index pages with 2-5 uniform keys each and one "
         "page filled with 65-70 keys, committed in batches of 300-900, the reindex run to the end and the old index dropped (more live entries than one reindex "
         "batch of 8192 moves, so a batch boundary falls inside a page); every key read after the growth and after a reopen",
    assumptions=["slot-level model: page search compares all stored key bits (exact from 18 index bits on - C19_equal_from_18_bits; with 16 or 17 bits the code compares 32 of the 34 / 33 stored bits, which only adds candidates that the has_key_at check rejects); a write is given an address at which no other key's value lives (C14); the log overlay of the index is not distinguished from the file (every operation is drained in the correspondence)",
                 "distinct keys differ in the key bytes the value table stores (see DESIGN 10.3, observation O1)",
                 "pipeline-level model: a reindex batch is a step without logical effect",
                 "index files larger than 17-18 bits are not created in checks; the entry theorems cover 16..49"],
    explanation="entry packing and key recovery proved for all index sizes; growth = no logical change at pipeline level; correspondence on page-overflow histories",
)

prop(
    id="C20", module="Properties.C20", vfile="Properties/C20.v", level="proof", subcmd="c20",
    theorems=["C20_content_preserved", "C20_key_recovered", "C20_whole_call_without_overwrite", "C20_whole_call_with_overwrite",
              "C20_every_column_holds_the_source", "C20_every_column_holds_the_source_in_place", "C20_result_column_by_column", "C20_batch_boundaries_are_invisible", "C20_refused_iff"],
    counts={"quick": 480, "thorough": 20000, "search": 3200},
    rule="(a third of the sources use the all-zero salt with clustered uniform keys - two index pages per column; three keys in ten are inserted and removed "
         "again before the migration, with or without a drain in between, so that index pages have holes) "
         "source databases of 1-3 hash columns (preimage / counted / lz4 / uniform keys), 2-12 keys per column, value lengths {0, 1-300, 4000-9000, "
         "33000-70000 (multipart)}, counts 1-4 on counted columns; destination options keep the hashing scheme and change the other flags in 3 of 4 columns; "
         "forced migration of a third of the columns; in-place overwrite in a quarter of the cases; the real parity_db::migrate is run, then every key of the "
         "destination is read, counted destinations are iterated for the counts, and the source is re-read when overwrite was not requested. "
         "Refusal families tie C20_refused_iff: 1 case in 10 has a btree column (not selected: copied as files and read back; forced, or hash -> btree: the call must fail with the model's error code and leave the source as it was), 1 in 25 asks for one column more than the source has (refused, code 1). "
         "Non-trivial: at least one present key with count > 1",
    assumptions=["sources are drained (one index generation) before migrating: migration of a source with a pending index growth is not exercised",
                 "btree columns cannot be migrated (the code refuses)"],
    explanation="migration as a fold of count-many Sets per source entry into the destination's column semantics; key reconstruction from C09's key recovery; the whole call (Model/MigrateDriver.v: column selection, one change set filled across columns and cut every COMMIT_SIZE pushes, copy of unselected columns, flush and move per column with overwrite) proved to produce the column-by-column specification for every batch size, and the model side of the K1 tie now runs that driver with the COMMIT_SIZE read from the source",
)

prop(
    id="C06", module="Properties.C06", vfile="Properties/C06.v", level="proof", subcmd="c06",
    theorems=["C06_tiers_ok", "C06_markers_disjoint", "C06_slot_roundtrip", "C06_chain_roundtrip_multipart",
              "C06_chain_roundtrip_single", "C06_select_tier_fits", "C06_multipart_needs_two_parts", "Alloc.C06_stored_value_reads_back_in_every_reachable_table", "Alloc.C06_replaced_value_reads_back_in_every_reachable_table"],
    counts={"quick": 1600, "thorough": 80000, "search": 8000},
    rule="three case families: (compressed, 1 in 8) one Set into a column compressed with lz4 or snappy (threshold 0 / 64 / 4096) of a value whose length is a tier boundary, 32000-34000, 34000-220000, "
         "1-200 or 200-32000 and whose content is constant, periodic, random-head-constant-tail, low-entropy or random; read back bit-exact while queued, after the drain and after a reopen, get_size checked, and the "
         "tier of the table file that received the entry is compared with the model's tier for the STORED length (read from the raw slot header); (insert) one Set of a value whose length is drawn from {0, 1, capacity of a random tier -1/0/+1, the single/multi-part boundary +-2, "
         "around multiples of the multipart payload, 32000-90000, 2-5000} into a fresh plain or counted hash column, drained; the RAW table file (header slot and "
         "every chain slot, every byte) is compared with the image the model builds, and the value is re-read after a reopen; (sequence) 4-24 sets / overwrites / "
         "removals over 2-6 keys with lengths from the same classes (values move between tiers and between single and chained storage), drained every third step; "
         "every value is read back bit-exact and the number of live slots per tier, computed from the raw files as fill mark - header - free-list length (walking the "
         "tombstone list), is compared with the model. Distinct = distinct (family, counted, length | length sequence)",
    assumptions=["the compressors themselves (lz4, snap crates) are not modelled: their output is observed through bit-exact read-back, and only the length of what they produced enters the model (tier choice); the byte-exact family uses uncompressed columns so that raw bytes are predictable",
                 "btree columns store values through the same table code with an empty key tail (covered by C04's histories)"],
    explanation="slot forms, byte codec, chain writer/reader and tier choice modelled with the constants regenerated from table.rs/column.rs; round trips proved for every length",
)

MT_RULE = ("multitree histories: column 0 multitree (plain / counted / append-only, direct node access), column 1 plain hash; 3-7 root keys each used for one "
           "tree life; trees of depth <= 3, fan-out 0-12 (one in 40 roots with 256-300 children, which must be rejected), a quarter of the children given as EXISTING "
           "nodes of live trees (named by a path from a live root, the same node possibly several times); transactions of 1-3 operations mixing InsertTree / "
           "ReferenceTree / DereferenceTree with plain sets and removals and, rarely, an invalid operation; steps {commit, process, flush, enact, clean, reopen, take / "
           "release the read lock of a live tree's reader}; two thirds of the histories end by dereferencing every live tree, drain and reopen. After EVERY step every "
           "root is traversed through get_root / get_node and dumped canonically (nodes numbered by first visit, so sharing is visible), the plain column is read, and "
           "after a reopen the entry count of the multitree column is taken. Non-trivial: the history shares nodes between trees or dereferences a tree while its lock is held. "
           "One history in twelve (not append-only) starts with wide sharing: a tree with 200-255 children, then a tree whose 150-250 children are nine in ten "
           "EXISTING children of the first (a few hundred reference counters change in one log record), drained, optionally reopened, optionally the sharer dereferenced; two thirds of these and a sixth of the other histories run with a small reference count table (hook H7: 2-8 chunks of 32 counters instead of 65536) and with steps of the reindex worker at random moments, in particular between the processing and the enactment of the sharer's dereference: the table grows (bits + 1), the outgrown table is moved batch by batch and dropped")
prop(
    id="C10", module="Properties.C10", vfile="Properties/C10.v", level="proof", subcmd="c10", beyond_known=True,
    subcmds=[("c10", {"quick": 1600, "thorough": 60000, "search": 6400}), ("c10r", {"quick": 320, "thorough": 16000, "search": 1600})],
    theorems=["C10_node_pack_roundtrip", "C10_unrepresentable_rejected", "C10_insert_reads_back_after_commit", "C10_insert_reads_back_after_processing", "C10_shared_node_survives_dereference", "C10_unshared_leaf_is_reclaimed", "C10_invalid_operation_rejects_without_trace",
              "Counters.C10_counter_lookup_is_reference_count", "Counters.C10_reference_account", "Counters.C10_tables_hold_the_models_count_map", "Counters.C10_count_map_steps_are_the_models",
              "Forest.C10_count_is_number_of_references", "Forest.C10_reachable_nodes_are_stored", "Forest.C10_all_dereferenced_is_empty", "Forest.C10_forest_invariant_kept",
              "Pipelined.C10_pipelined_count_is_number_of_references", "Pipelined.C10_pipelined_reachable_nodes_are_stored", "Pipelined.C10_pipelined_all_dereferenced_is_empty", "Pipelined.C10_processing_keeps_the_forest"],
    counts={"quick": 1600, "thorough": 60000, "search": 6400},
    rule="(c10r, counter level) hook H7 makes a new reference count table small (2-8 chunks of 32 counters; 'deep' third: 2 chunks, 200-250 leaves, no reindex step while "
         "the sharers pile up, so that three tables coexist); a base tree with 40-250 leaves, then 60-320 drained transactions: insert a sharer (a root with 1-4 EXISTING leaves: each gains a "
         "reference), dereference a sharer (each of its leaves loses one), one step of the reindex worker, drop + reopen; after EVERY transaction every refcount_00_<bits> file is read raw "
         "(slot, address, count of every non-empty slot of every chunk) and compared with the tables the model's rstep predicts; oracle: the counter a lookup finds equals 1 + the live sharers "
         "of the leaf, a leaf with one reference has no counter anywhere, sharers and leaves read back; at the end every sharer is dereferenced (no counter may remain), then the base tree "
         "(no value entry may remain). (c10) " + MT_RULE,
    assumptions=["counter level: the hash of an address (SipHash-2-4 with a zero key, computed by the harness with the siphasher crate) is an input of the model; the table logic is exercised with small tables (hook H7) - with the built-in 65536 chunks growth needs about a million shared nodes; the reindex batch limit (8192 counters) is in the model and in the proof but is never reached by tables of this size; a reindex batch is collected and applied in one step (it is, by the one log worker); the hash index of the column does not grow in these histories (index and counter tables share the reindex queue)",
                 "forest theorems (counts = references, reachable nodes stored and readable, nothing left after the last root): for histories of SINGLE-operation transactions on a column that is not append-only - made and processed at any moment, any number queued, reader locks taken and released (postponed dereferences included), crashes -, under the hypothesis that every processed commit finds what its author saw (an insertion its root key free and its existing children stored, a dereference the root it read: head_ok); several operations per transaction and clean restarts with a non-empty queue are tied by c10 only", "node identities are abstract in the model (the code's addresses): observations are compared after canonical renumbering, existing children are named by paths",
                 "the slot allocator (claim_entries) is not modelled; its effects are visible only through the entry count (that is how F7, now repaired, was seen)"],
    explanation="multitree model with abstract node identities, commit-time preparation, counted sharing, recursive dereference; node packing proved; tie by full traversals after every step",
)
prop(
    id="C11", module="Properties.C11", vfile="Properties/C11.v", level="proof", subcmd="c10", beyond_known=True,
    theorems=["C11_locked_tree_stable", "C11_order_preserved_refuted", "C11_postponed_removals_complete", "C11_old_deferral_rule_rotates_for_ever",
              "Held.C11_locked_tree_root_is_kept", "Held.C11_locked_tree_stays_readable", "Held.C11_locked_tree_is_unchanged", "Held.C11_without_locks_commit_order_is_kept", "Held.C11_commit_without_lock_makes_nobody_wait"],
    counts={"quick": 1600, "thorough": 60000, "search": 6400},
    rule=MT_RULE + "; the C11 oracle additionally snapshots a tree when its lock is taken and demands the identical traversal at every step until the lock is released, "
         "and demands that the plain column always equals the fold of the accepted transactions in commit order",
    assumptions=["Held.* (a locked tree keeps its root and all its nodes readable through every pipelined schedule) are stated for single-operation transactions under head_ok (every processed commit finds what its author saw); where F4 lets a postponed transaction be overtaken that hypothesis can fail, as the finding shows", "locks are taken and released between pipeline steps by the harness thread (stepping API); instruction-level interleavings of lock acquisition with the log worker are outside the model (C05)"],
    explanation="deferral modelled as in defer_commit (re-queue at the back under a new identity, overlay re-copied); stability of a locked tree proved; order preservation REFUTED with a witness (finding F4)",
)

prop(
    id="C04", module="Properties.C04", vfile="Properties/C04.v", level="proof", subcmd="c04",
    subcmds=[("c04", {"quick": 1600, "thorough": 60000, "search": 8000}), ("c04t", {"quick": 480, "thorough": 20000, "search": 2400}),
             ("c04m", {"quick": 96, "thorough": 4800, "search": 480})],
    theorems=["C04_tree_iteration_is_spec", "C04_step_is_spec", "C04_checker_sound_order", "C04_checker_sound_depth", "C04_merged_step_is_next", "C04_merged_iteration_is_spec", "C04_prescription_is_unambiguous",
              "Mut.C04_set_keeps_tree", "Mut.C04_sets_keep_tree", "Mut.C04_spec_ins_is_set_insertion",
              "Mut.C04_mutations_keep_tree", "Mut.C04_remove_keeps_tree", "Mut.C04_spec_del_is_set_removal"],
    counts={"quick": 1600, "thorough": 60000, "search": 8000},
    rule="(c04m, tree shape) 30-200 short keys, 40-260 operations in drained transactions of one change (a third: 2-6 changes of different keys, committed in shuffled order and applied by the code in key order - the files are compared after the transaction), in three phases (grow - ascending, descending or random -, churn, shrink; "
         "removals prefer the smallest / largest / a random live key): after EVERY operation the tree is read from the raw files and compared, node for node, with the tree the "
         "model's bstep builds (where a key goes, median splits, the predecessor that replaces a removed separator, borrowing from the left / right sibling, merges, the root "
         "gaining and losing levels); every key is point-read as well. (c04) histories on a btree column (plus an optional second column): 5-14 keys incl. the empty key, keys of 254/255/256 bytes (length-encoding boundary) "
         "and keys extending other keys; 15-60 steps of {commit of 1-6 sets/removals, process, flush, enact, clean, reopen + new iterator, seek, seek_to_first, "
         "seek_to_last, next, prev} on an iterator that stays open across commits and pipeline steps; every iterator result and every point read after every step "
         "are compared with the model, and an oracle tracks the position the property defines and demands least >= / greatest <= / least > / greatest < of the "
         "ordered map of accepted writes. (c04t) 20-160 keys, 3-30 transactions of 1-40 operations with removals dominating late (splits, merges, root growth and "
         "shrink); after the drain the tree is read from the RAW files by the harness's parser and judged by the extracted proved checker; its in-order key list must "
         "equal the live keys. Non-trivial: a history that touches a key while an earlier touch is not yet enacted (c04), a tree of depth >= 1 (c04t)",
    assumptions=["tree mutation: proved for one change at a time (any sequence of sets and removals); the batched descent of Node::change over several sorted changes of one transaction is tied to the one-at-a-time model by c04m (a third of its transactions carry 2-6 changes; the resulting tree must equal the tree the model builds change by change in key order) and judged by the proved checker on raw dumps in c04 / c04t; values and reference counts of btree entries are not part of the mutation model (a removal is a removal that takes the key out)",
                 "the merge of the tree cursor with the commit overlay is proved for an overlay given as a sorted list of the pending changes (C04_merged_step_is_next, C04_merged_iteration_is_spec); that the commit overlay of the code presents itself to the iterator as that list is tied by correspondence and by the oracle",
                 "the tree cursor over nodes is abstracted to a cursor over the sorted entry list; that abstraction is what the correspondence validates"],
    explanation="iterator modelled as tree-cursor + commit-overlay merge exactly as iter_inner does it (pending item, last key, re-seek on change); proved checker for raw tree dumps",
)


CRASH_RULE = ("histories as for C01 but without clean reopen steps (so the pipeline gets deep), run on the real Db with the stepping API while the "
              "harness interposes fdatasync/fsync/msync/ftruncate/unlink and receives the append/enact/store/truncate events of hook H2/H3; at sampled instants "
              "(after every step, inside the enactment of a record after each store, inside a log append at a random byte length, just before a truncation) the "
              "directory is copied as an image: crash (page cache survives), torn-log (the appended tail cut at a random byte), power (each file as of its last "
              "sync plus a random subset of the 4 KiB pages written since, log tail cut at random); every image is opened with the real Db::open, all keys read, "
              "one more commit driven through and the image reopened. A history is non-trivial when at least one image was taken inside an append, inside an "
              "enactment or from durable copies; distinct = histories")

prop(
    id="C02", module="Properties.C02", vfile="Properties/C02.v", level="proof", subcmd="c02",
    theorems=["C02_crash_recovers_prefix", "C02_accepted_trace_reaches", "C02_recovery_restartable", "C02_recovery_after_partial_recovery"],
    counts={"quick": 160, "thorough": 6000, "search": 640},
    rule=CRASH_RULE,
    assumptions=["a record of the abstract model is the list of absolute cell writes of one log record; that the bytes of a record decode to those writes is the codec model (C13) and the real replay",
                 "the planner (which writes a commit turns into) is the pipeline model of C01; multitree columns and index growth are not part of the crash histories",
                 "crash points are sampled at file-operation boundaries and random byte lengths, not enumerated"],
    explanation="abstract WAL protocol (append / sync / store / finish / flush / truncate) with an invariant tying page cache, durable image and log; theorem: replaying the kept records over "
                "the surviving tables gives the state after m records for every admissible m; the implementation's event traces are accepted by the executable protocol on every run",
    trusted_extra=["syscall interposition in the harness binary (#[no_mangle] fdatasync/fsync/msync/ftruncate/unlink forwarding to libc via dlsym RTLD_NEXT): a sync call makes the whole file durable, nothing else does",
                   "the tracker of harness/src/props/crash.rs that turns hook events H2/H3 and syscalls into protocol events, durable copies and directory images"],
    timeout={"quick": 3000, "thorough": 20000},
)
prop(
    id="C12", module="Properties.C12", vfile="Properties/C12.v", level="proof", subcmd="c12",
    theorems=["C12_power_loss_recovers_prefix", "C12_accepted_trace_power_loss", "C12_store_only_synced", "C12_truncate_only_covered", "C12_truncate_after_flush_accepted", "C12_D1_needed", "C12_D2_needed"],
    counts={"quick": 160, "thorough": 6000, "search": 640},
    rule=CRASH_RULE + "; the C12 run takes power-loss images only more often and the oracle demands every synced record present",
    assumptions=["a sync call makes the whole file durable and nothing else does (interposed fdatasync/fsync/msync are the only durability points); page granularity 4 KiB",
                 "sync_wal = sync_data = true (the defaults)"],
    explanation="same protocol with a durable image: dirty cells hold arbitrary values after power loss; theorem for every reachable state; both ordering rules are guards of the trace acceptor",
    trusted_extra=["syscall interposition in the harness binary (#[no_mangle] fdatasync/fsync/msync/ftruncate/unlink forwarding to libc via dlsym RTLD_NEXT): a sync call makes the whole file durable, nothing else does",
                   "the tracker of harness/src/props/crash.rs that turns hook events H2/H3 and syscalls into protocol events, durable copies and directory images"],
    timeout={"quick": 3000, "thorough": 20000},
)
prop(
    id="C13", module="Properties.C13", vfile="Properties/C13.v", level="proof", subcmd="c13",
    theorems=["C13_accepted_index_action_writes_inside_the_file", "C13_accepted_counter_action_writes_inside_the_file", "C13_replay_applies_only_valid_consecutive", "C13_accepted_record_is_complete_and_checksummed", "C13_nothing_after_invalid", "C13_out_of_sequence_header_stops_replay",
              "C13_scanner_total", "C13_surviving_prefix_gives_prefix_state", "C13_older_prefix_over_newer_tables_refuted", "C13_complete_record_is_accepted", "C13_torn_record_never_applied", "C13_cut_inside_checksum_is_end_of_file"],
    counts={"quick": 160, "thorough": 6000, "search": 640},
    rule=CRASH_RULE + "; C13 images are taken at record boundaries and then damaged by one of: truncation at a random offset, one flipped bit, 2-16 bytes of garbage, "
         "garbage appended, file deleted, file duplicated under a later name, size field 0x7fff planted, file cut below the header length, stray junk file; "
         "the raw bytes of all log files (up to 6000 bytes) go to the extracted codec model, whose applied ids are compared with the ids the real replay enacts",
    assumptions=["table-generation check of index records (index_bits known to the column) is not in the codec model; histories of this check have no index growth",
                 "bytes are < 256 (they are u8 in the implementation)"],
    explanation="byte-level model of record parsing (structure, per-table payload lengths, CRC-32) and of the replay acceptance; theorems for arbitrary bytes; CRC-32 model compared with crc32fast",
    trusted_extra=["syscall interposition in the harness binary (#[no_mangle] fdatasync/fsync/msync/ftruncate/unlink forwarding to libc via dlsym RTLD_NEXT): a sync call makes the whole file durable, nothing else does",
                   "the tracker of harness/src/props/crash.rs that turns hook events H2/H3 and syscalls into protocol events, durable copies and directory images"],
    timeout={"quick": 3000, "thorough": 20000},
)

prop(
    id="C16", module="Properties.C16", vfile="Properties/C16.v", level="proof", subcmd="c16",
    theorems=["C16_reads_survive_and_commits_refused", "C16_stopping_anywhere_is_reachable", "C16_reopen_after_fault_is_prefix", "C16_error_shutdown_accepted"],
    counts={"quick": 160, "thorough": 6000, "search": 640},
    rule=CRASH_RULE + "; C16: at a random pipeline-stage step of the history the number of file operations that still succeed is set to a random value 0-40 "
         "(the repository's try_io injection: every later file operation of the thread fails); the stage that fails is handled the way a background worker handles it "
         "(hook H6 verif_store_err); from then on only commits and reads happen: every commit must be refused, every read (injection suspended around reads) must equal the "
         "transactions accepted so far (counted columns: positive count => readable); the handle is dropped with the fault still present (2/3) or lifted for the dropping thread (1/3); "
         "then the directory is opened without fault and must hold a prefix of the accepted transactions containing everything synced before the failure; crash and power-loss images "
         "are taken throughout, also during the drop",
    assumptions=["faults are injected at the file operations the repository wraps in try_io (81 sites), on the thread that runs the stages; a failing operation is not executed at all",
                 "without background threads (stepping API); the worker's error handling is reproduced by hook H6",
                 "reads are not pipeline file operations: the injection is suspended around them (the instrumentation would otherwise fail index page reads too)"],
    explanation="pipeline model with a failed stage: reads unchanged, commits refused (proved for every history); log protocol: the writer may stop after any prefix of its file-level events "
                "and the state is reachable, so the recovery theorem applies; the error shutdown (flush, truncate) is accepted by the protocol",
    trusted_extra=["syscall interposition and tracker as for C02/C12", "the repository's own try_io failure injection (instrumentation feature)"],
    timeout={"quick": 3000, "thorough": 20000},
)

prop(
    id="C14", module="Properties.C14", vfile="Properties/C14.v", level="proof", subcmd="c14",
    subcmds=[("c14", {"quick": 640, "thorough": 40000, "search": 3200}), ("c14a", {"quick": 640, "thorough": 40000, "search": 3200})],
    theorems=["C14_accepted_table_is_partitioned", "C14_no_slot_twice", "C14_no_slot_leaked", "C14_checked_table_satisfies_invariant", "C14_alloc_pops_free_list", "C14_alloc_extends_only_when_list_empty", "C14_free_pushes_on_free_list",
              "C14_store_keeps_partition", "C14_remove_keeps_partition", "C14_replace_keeps_partition", "C14_reachable_tables_partitioned", "Nodes.C14_node_counts_equal_referencing_parents", "Nodes.C14_no_root_no_node"],
    counts={"quick": 640, "thorough": 40000, "search": 3200},
    rule="(c14a, allocator correspondence) 6-30 operations on ONE value table - a fixed size tier (values of exactly the tier's capacity) or the multi-part table (values of 9-14 slots) - each "
         "its own transaction, drained: store a value / remove the j-th live value / replace the j-th live value by one of another length (the chain is reused, extended from the free list or cut, ValueTable::overwrite_chain); after every operation the raw table file is classified slot by slot and compared with the table the model's "
         "astep predicts (which slot an allocation takes: free list first, LIFO, the fill mark only when the list is empty; how a chain is linked; in which order the slots of a removed chain "
         "enter the free list). (c14) histories from six generators in turn (mixed hash/btree columns; counted columns; index growth with 66-90 keys sharing an index page; btree columns grown to 40-130 keys and thinned out; "
         "histories with drops at random pipeline states; value-size classes incl. multi-part chains), every third one interrupted at a random step by a process crash (directory copied while "
         "the handle is open, the copy opened: recovery), then drained and dropped; the harness reads every value-table file of every column itself and classifies every slot below the fill "
         "mark from its first bytes: one case per table for the extracted checker; per column the number of value chains is compared with what the live content needs; value iteration of every "
         "hash column is compared with the live keys. distinct = histories",
    assumptions=["live content is taken from reads through a fresh handle (their correctness is the subject of C01/C04/C07)",
                 "the index-entry-resolves-to-its-own-key clause is covered through reads (every live key is found) and the entry codec proofs of C09, not by a raw index walk",
                 "multitree node counts: proved on the multitree model (Nodes.C14_node_counts_equal_referencing_parents, from the forest invariant of C10) and checked on the raw reference count table files by the C10 check (c10r), not by this check's dumps"],
    explanation="a checker for raw value-table dumps (free-list walk, chain walks, every slot exactly once) proved sound for all dumps; the btree half is the proved checker of C04",
)

prop(
    id="C18", module="Properties.C18", vfile="Properties/C18.v", level="proof", subcmd="c18",
    theorems=["C18_at_most_one_live_handle", "C18_second_open_fails_and_changes_nothing", "C18_reopen_after_drop_or_death", "C18_only_the_holder_changes_the_directory"],
    counts={"quick": 640, "thorough": 40000, "search": 3200},
    rule="4-14 steps per history on one directory: single open attempts (by a thread of the harness process or by a child process started from the same binary), races of 2-4 open attempts "
         "(threads released by a barrier plus child processes started together), drops (from another thread / by command to the child), kills of the child process holding the handle "
         "(leaving synced, un-enacted log records: the next open has to recover, also inside a race), writes through the holder; after every refused attempt the directory (names, sizes, CRC of "
         "every file) must be unchanged; at the end everything is released, the directory must open and hold the last write. A history is non-trivial when at least one attempt met a live handle "
         "or raced another",
    assumptions=["the lock is flock on the lock file (per open file description, released by the kernel at process death); NFS-like file systems without flock semantics are outside",
                 "races are judged by the number of winners (exactly one without a holder, none with one); which attempt wins is not compared"],
    explanation="a lock protocol model (holder, content); theorems for every history: at most one live handle, a refused open is inert, release re-enables opening",
)

prop(
    id="C05", module="Properties.C05", vfile="Properties/C05.v", level="proof", subcmd="c05",
    theorems=["C05_read_is_linearizable", "C05_reads_never_go_back"],
    counts={"quick": 320, "thorough": 20000, "search": 1600},
    rule="runs with the four background workers enabled: one writer thread commits 120-400 transactions, each writing all 6 keys of one of 11-14 groups (in a hash column whose keys share one index page - "
         "so the index grows during the run - and, in half of the runs, also in a btree column) with its version number and a value whose length depends on the version (16 bytes to 40000: entries move "
         "between size tiers and become multi-part), pausing 0-300 us after a quarter of the commits; 2-4 reader threads read random keys in a loop; every read is judged against the writer's 'started' and "
         "'completed' marks taken around it and against what the reader saw before. A run is non-trivial when some read returned a commit that was still in flight (started, not yet returned)",
    assumptions=["the model's actions (commit, move into the log overlay, remove from the commit overlay, one table write, drop from the log overlay) are atomic; byte-level tearing of a table entry that is "
                 "rewritten while a reader passes from the log overlay to the tables, and the memory ordering of mmap stores, are outside the model",
                 "a transaction writes each key at most once (a duplicate key would be visible half-way only in that same window)",
                 "schedules of the real threads are sampled by the operating system, not enumerated"],
    explanation="a reader that looks into the three layers at three different moments of any interleaving returns a value of the specification at a moment inside the read; ordered reads have ordered moments; "
                "tie: stress runs judged by the property text, final state compared with the model's specification function",
)

prop(
    id="C15", module="Properties.C15", vfile="Properties/C15.v", level="proof", subcmd="c15",
    theorems=["C15_never_blocked_with_work", "C15_progress", "C15_shutdown_terminates", "BP.C15_backpressure_wait_is_signalled", "BP.C15_signalled_wait_returns", "BP.C15_backpressure_deadlock_without_signal_refuted"],
    counts={"quick": 96, "thorough": 10000, "search": 800},
    rule="runs with the four background workers and no stepping from outside: 1-3 client threads commit 20-160 transactions of 0-9 keys with value lengths from 16 bytes to 3 MB (in a sixth of the runs one "
         "transaction of about 18 MB, above the 16 MiB queue limit), pauses of 0-2 ms after a third of the commits, always_flush on in a third of the runs; in half of the runs the clients run in a child process which, once they are done, makes no "
         "further call and is killed after a quiet period of 0.3-2.5 s: the directory (a crash image) must hold every commit; in the other half the handle is dropped and the directory reopened. A per-run watchdog (120 s) reports a call "
         "that does not return. A run is non-trivial when more than 4 MiB were committed",
    assumptions=["the theorems are about ONE stage and its producer; the pipeline is a chain of such stages (each stage's work step is the next stage's producer); the back-pressure waits (commit queue full, "
                 "too many logs waiting for cleanup - the site of the repaired F6) are exercised by the runs but not modelled",
                 "fairness: the operating system lets every runnable worker thread run; wall-clock bounds are the watchdog's, not proved"],
    explanation="wait/signal protocol of WaitCondvar and the worker loop modelled as atomic regions; no lost wake-up (invariant), progress within three worker moves for every interleaving, shutdown terminates",
)
