#!/usr/bin/env python3
"""Regenerate MANIFEST.json from tools/propdefs.py (claimed checks) + tools/manifest_meta.py (texts)."""
import json, os, sys
sys.path.insert(0, os.path.dirname(os.path.abspath(__file__)))
import propdefs, manifest_meta as mm

ALL = ["C%02d" % i for i in range(1, 21)]
checks = []
for pid in ALL:
    if pid not in propdefs.PROPS:
        continue
    P = propdefs.PROPS[pid]
    meta = mm.META[pid]
    checks.append({
        "property_id": pid,
        "quick_cmd": f"./check {pid} --tier quick",
        "thorough_cmd": f"./check {pid} --tier thorough",
        "evidence_file": f"evidence/{pid}.json",
        "replay_cmd_template": f"./check {pid} --replay {{path}}",
        "engine": "coq-model",
        "level_claimed": {"category": P["level"], "text": meta["text"], "design_ref": f"DESIGN.md section 5 {pid}"},
        "level_note": meta["note"],
        "technique": meta.get("technique", "Coq proof over an executable Gallina model + differential correspondence with the implementation"),
    })
claimed = [c["property_id"] for c in checks]
m = {
    "version": 1,
    "setup_cmd": "cd /verif && ./check setup",
    "hooks": {"guard": "--cfg parity_db_verif",
              "enable": "RUSTFLAGS=\"--cfg parity_db_verif\" (set in /verif/harness/.cargo/config.toml) plus the repo's own cargo feature `instrumentation`",
              "baseline_off_cmd": "cd /repo && cargo test --workspace --no-fail-fast --offline",
              "source_commits": mm.HOOK_COMMITS, "add_only": True},
    "engines": [
        {"name": "coq-model", "path": "/verif/coq", "serves_properties": claimed,
         "kind_free_text": "Gallina model + theorems (Coq 8.16.1); constants regenerated from /repo/src on every run"},
        {"name": "driver", "path": "/verif/driver", "serves_properties": claimed,
         "kind_free_text": "extracted OCaml model (ExtrOcamlBasic) + generic text driver"},
        {"name": "harness", "path": "/verif/harness", "serves_properties": claimed,
         "kind_free_text": "Rust harness driving the real code in /repo (stepping API, hooks), generators, property oracles"}],
    "checks": checks,
    "not_applicable": [{"property_id": p, "reason": mm.NOT_CLAIMED.get(p, "not yet claimed: check under construction (DESIGN.md section 8)")}
                       for p in ALL if p not in claimed],
    "notes": "All checks: ./check <id> --tier quick|thorough (cwd /verif). Known findings: known_findings.json. See DESIGN.md.",
}
json.dump(m, open(os.path.join(os.path.dirname(os.path.abspath(__file__)), "..", "MANIFEST.json"), "w"), indent=1)
print("MANIFEST.json written:", claimed)
