#!/usr/bin/env python3
"""K0 translator: regenerate coq/Gen/Consts.v from the literals in /repo/src.

Every constant the Coq model is parameterised by is read from the Rust source on every run.
A constant that is missing or is not a literal expression this translator understands is a
*broken tie*: the script exits non-zero with a message naming it.
The output file is only rewritten when its content changes (keeps `make` incremental).
"""
import os, re, sys

REPO = os.environ.get("VERIF_REPO", "/repo")
OUT = os.path.join(os.path.dirname(os.path.abspath(__file__)), "..", "coq", "Gen", "Consts.v")


class Broken(Exception):
    pass


def src(name):
    with open(os.path.join(REPO, "src", name)) as f:
        return f.read()


def strip_comments(s):
    s = re.sub(r"//[^\n]*", "", s)
    return s


def eval_int(expr, env):
    """Evaluate a Rust integer constant expression made of literals, known names, + - * / << >> | and casts."""
    e = expr.strip()
    e = re.sub(r"\bas\s+(usize|u64|u32|u16|u8|i64|i32)\b", "", e)
    e = re.sub(r"(\d)_(?=\d|[0-9a-fA-F])", r"\1", e)
    e = re.sub(r"\b(0x[0-9a-fA-F_]+|\d[\d_]*)(usize|u64|u32|u16|u8|i64|i32)\b", r"\1", e)
    e = e.replace("_", "_")
    e = re.sub(r"0x([0-9a-fA-F_]+)", lambda m: str(int(m.group(1).replace("_", ""), 16)), e)
    e = e.replace("u32::MAX", str(2**32 - 1)).replace("u16::MAX", str(2**16 - 1)).replace("u64::MAX", str(2**64 - 1))
    names = re.findall(r"[A-Za-z_][A-Za-z_0-9:]*", e)
    for n in names:
        base = n.split("::")[-1]
        if base not in env:
            raise Broken(f"expression {expr!r} refers to unknown name {n}")
    e2 = re.sub(r"[A-Za-z_][A-Za-z_0-9:]*", lambda m: str(env[m.group(0).split('::')[-1]]), e)
    if not re.fullmatch(r"[\d\s()+\-*/<>|&]*", e2):
        raise Broken(f"expression {expr!r} is not a constant integer expression")
    e2 = e2.replace("/", "//")
    return int(eval(e2, {"__builtins__": {}}, {}))


def const(text, name, env, ty=None):
    m = re.search(r"\bconst\s+" + re.escape(name) + r"\s*:\s*([A-Za-z0-9_]+)\s*=\s*([^;]+);", text)
    if not m:
        raise Broken(f"constant {name} not found as `const {name}: T = <expr>;`")
    v = eval_int(m.group(2), env)
    env[name] = v
    return v


def byte_slice(text, name):
    m = re.search(r"\bconst\s+" + re.escape(name) + r"\s*:\s*&\[u8\]\s*=\s*&\[([^\]]*)\];", text)
    if not m:
        raise Broken(f"byte-slice constant {name} not found")
    return [int(x.strip().replace("_", ""), 0) for x in m.group(1).split(",") if x.strip()]


def sizes_table(text):
    m = re.search(r"\bconst\s+SIZES\s*:\s*\[u16;\s*SIZE_TIERS\s*-\s*1\]\s*=\s*\[([^\]]*)\];", text, re.S)
    if not m:
        raise Broken("SIZES table not found in column.rs")
    return [int(x.strip().replace("_", ""), 0) for x in m.group(1).split(",") if x.strip()]


def validate_factor(text, fname, chunk_entries):
    """1 when validate_plan bounds the chunk index by total_chunks(), CHUNK_ENTRIES when by total_entries()"""
    m = re.search(r"fn validate_plan\(&self, index: u64, log: &mut LogReader\) -> Result<\(\)> \{\s*if index >= self\.id\.(total_chunks|total_entries)\(\) \{\s*return Err\(", text)
    if not m:
        raise Broken(f"{fname}: validate_plan no longer starts with `if index >= self.id.total_chunks() {{ return Err(..`")
    return 1 if m.group(1) == "total_chunks" else chunk_entries


def coq_list(xs):
    return "[" + "; ".join(str(x) for x in xs) + "]"


def main():
    env = {}
    index = strip_comments(src("index.rs"))
    table = strip_comments(src("table.rs"))
    column = strip_comments(src("column.rs"))
    log = strip_comments(src("log.rs"))
    db = strip_comments(src("db.rs"))
    options = strip_comments(src("options.rs"))
    refc = strip_comments(src("ref_count.rs"))
    migration = strip_comments(src("migration.rs"))
    btree = strip_comments(src("btree/mod.rs"))

    out = []
    def emit(cname, v):
        out.append(f"Definition {cname} : N := {v}.")

    # table.rs
    tenv = {}
    for n in ["SIZE_TIERS_BITS", "SIZE_TIERS", "COMPRESSED_MASK", "MAX_ENTRY_SIZE", "MIN_ENTRY_SIZE", "REFS_SIZE",
              "SIZE_SIZE", "INDEX_SIZE", "MAX_ENTRY_BUF_SIZE", "LOCKED_REF", "MULTIPART_ENTRY_SIZE"]:
        if n == "SIZE_TIERS":
            # declared before SIZE_TIERS_BITS in the file: evaluate after
            continue
        const(table, n, tenv)
    const(table, "SIZE_TIERS", tenv)
    const(table, "PARTIAL_SIZE", tenv)
    for n in ["SIZE_TIERS_BITS", "SIZE_TIERS", "COMPRESSED_MASK", "MAX_ENTRY_SIZE", "MIN_ENTRY_SIZE", "REFS_SIZE",
              "SIZE_SIZE", "INDEX_SIZE", "MAX_ENTRY_BUF_SIZE", "LOCKED_REF", "MULTIPART_ENTRY_SIZE", "PARTIAL_SIZE"]:
        emit("table_" + n.lower(), tenv[n])
    for n in ["TOMBSTONE", "MULTIPART_V4", "MULTIHEAD_V4", "MULTIPART", "MULTIHEAD", "MULTIHEAD_COMPRESSED"]:
        bs = byte_slice(table, n)
        out.append(f"Definition table_{n.lower()} : list N := {coq_list(bs)}.")

    # index.rs
    ienv = dict(SIZE_TIERS_BITS=tenv["SIZE_TIERS_BITS"])
    for n in ["CHUNK_ENTRIES_BITS", "CHUNK_ENTRIES", "HEADER_SIZE", "META_SIZE", "ENTRY_BITS", "ENTRY_BYTES", "CHUNK_LEN"]:
        pass
    const(index, "CHUNK_ENTRIES_BITS", ienv)
    const(index, "CHUNK_ENTRIES", ienv)
    const(index, "ENTRY_BITS", ienv)
    const(index, "ENTRY_BYTES", ienv)
    const(index, "CHUNK_LEN", ienv)
    const(index, "HEADER_SIZE", ienv)
    const(index, "META_SIZE", ienv)
    for n in ["CHUNK_ENTRIES_BITS", "CHUNK_ENTRIES", "ENTRY_BITS", "ENTRY_BYTES", "CHUNK_LEN", "HEADER_SIZE", "META_SIZE"]:
        emit("index_" + n.lower(), ienv[n])
    # the bound of the replay's validation of an InsertIndex action (F26): a chunk index must be compared with the number
    # of chunks; the factor by which the code's bound exceeds it goes into the model (Proofs/WalCodecRange.v needs 1)
    emit("index_validate_chunk_factor", validate_factor(index, "index.rs", ienv["CHUNK_ENTRIES"]))
    if not re.search(r"fn file_size\(index_bits: u8\) -> u64 \{\s*total_entries\(index_bits\) \* 8 \+ META_SIZE as u64\s*\}", index):
        raise Broken("index.rs file_size is no longer `total_entries(index_bits) * 8 + META_SIZE`")
    if not re.search(r"fn enact_plan\(&self, index: u64, log: &mut LogReader\)[^}]*?let offset = META_SIZE \+ index as usize \* CHUNK_LEN;", index, re.S) and \
       not re.search(r"fn enact_plan\(&self, index: u64, log: &mut LogReader\).*?let offset = META_SIZE \+ index as usize \* CHUNK_LEN;", index, re.S):
        raise Broken("IndexTable::enact_plan no longer writes at META_SIZE + index * CHUNK_LEN")
    # the shape of Entry::address_bits must be index_bits + CHUNK_ENTRIES_BITS + SIZE_TIERS_BITS
    if not re.search(r"fn address_bits\(index_bits: u8\) -> u8 \{\s*index_bits \+ CHUNK_ENTRIES_BITS \+ SIZE_TIERS_BITS\s*\}", index):
        raise Broken("Entry::address_bits is no longer `index_bits + CHUNK_ENTRIES_BITS + SIZE_TIERS_BITS`")

    # ref_count.rs
    renv = {}
    const(refc, "CHUNK_ENTRIES_BITS", renv)
    const(refc, "CHUNK_ENTRIES", renv)
    const(refc, "ENTRY_BITS", renv)
    const(refc, "ENTRY_BYTES", renv)
    const(refc, "META_SIZE", renv)
    for n in ["CHUNK_ENTRIES_BITS", "CHUNK_ENTRIES", "ENTRY_BITS", "ENTRY_BYTES", "META_SIZE"]:
        emit("refcount_" + n.lower(), renv[n])
    emit("refcount_validate_chunk_factor", validate_factor(refc, "ref_count.rs", renv["CHUNK_ENTRIES"]))

    # column.rs
    cenv = dict(tenv)
    for n in ["MIN_INDEX_BITS", "MIN_REF_COUNT_BITS", "MAX_REINDEX_BATCH"]:
        emit("column_" + n.lower(), const(column, n, cenv))
    sizes = sizes_table(column)
    out.append(f"Definition column_sizes : list N := {coq_list(sizes)}.")

    # log.rs
    lenv = {}
    for n in ["MAX_LOG_POOL_SIZE", "BEGIN_RECORD", "INSERT_INDEX", "INSERT_VALUE", "END_RECORD", "DROP_TABLE",
              "INSERT_REF_COUNT", "DROP_REF_COUNT_TABLE"]:
        emit("log_" + n.lower(), const(log, n, lenv))

    # db.rs
    denv = {}
    for n in ["MAX_COMMIT_QUEUE_BYTES", "MAX_LOG_QUEUE_BYTES", "MIN_LOG_SIZE_BYTES", "KEEP_LOGS", "MAX_LOG_FILES"]:
        emit("db_" + n.lower(), const(db, n, denv))

    # options.rs / migration.rs / btree
    oenv = {}
    for n in ["CURRENT_VERSION", "LAST_SUPPORTED_VERSION", "DEFAULT_COMPRESSION_THRESHOLD"]:
        emit("options_" + n.lower(), const(options, n, oenv))
    menv = {}
    emit("migration_commit_size", const(migration, "COMMIT_SIZE", menv))
    # Model/MigrateDriver.v: a column is selected when forced or when its options differ - the metadata itself selects nothing
    if not re.search(r"fn columns_to_migrate\(&self\) -> std::collections::BTreeSet<u8> \{\s*std::collections::BTreeSet::new\(\)\s*\}", options):
        raise Broken("options.rs: Metadata::columns_to_migrate no longer returns the empty set (Model/MigrateDriver.v `selected` assumes it)")
    if not re.search(r"if source_options\.columns\[c as usize\] != to\.columns\[c as usize\] \{\s*to_migrate\.insert\(c\);", migration):
        raise Broken("migration.rs: a column whose options differ is no longer added to to_migrate by the loop the model follows")
    benv = {}
    for n in ["ORDER", "ORDER_CHILD", "HEADER_SIZE", "MAX_KEYSIZE_ENCODED_SIZE", "ENTRY_CAPACITY"]:
        emit("btree_" + n.lower(), const(btree, n, benv))
    emit("key_size", const(strip_comments(src("lib.rs")), "KEY_SIZE", {}))

    # ---- text formats (C17): the format string of ColumnOptions::as_string, the keys read back by
    # from_string, the metadata line formats and the file-name prefixes
    def bytes_list(t):
        return coq_list(list(t.encode()))
    m = re.search(r'fn as_string\(&self\) -> String \{\s*format!\(\s*"([^"]*)",((?:\s*self\.[a-z_]+(?: as u8)?,)+)\s*\)', options)
    if not m:
        raise Broken("ColumnOptions::as_string is no longer a single format! of self.<field> arguments")
    pieces = m.group(1).split("{}")
    fields = [f.strip().rstrip(",") for f in m.group(2).split("\n") if f.strip()]
    fields = [re.sub(r"^self\.", "", f) for f in fields]
    expected_fields = ["preimage", "uniform", "ref_counted", "compression as u8", "btree_index", "multitree", "append_only", "allow_direct_node_access"]
    if fields != expected_fields:
        raise Broken(f"ColumnOptions::as_string prints fields {fields}, the model expects {expected_fields}")
    out.append("Definition options_fmt_pieces : list (list N) := [" + "; ".join(bytes_list(x) for x in pieces) + "].")
    keys = re.findall(r'vals\s*\.?\s*get\("([a-z_]+)"\)', options)
    out.append("Definition options_parse_keys : list (list N) := [" + "; ".join(bytes_list(x) for x in keys) + "].")
    m = re.search(r'split\("(sizes: )"\)', options)
    if not m:
        raise Broken("from_string no longer cuts the string at \"sizes: \"")
    out.append(f"Definition options_sizes_marker : list N := {bytes_list(m.group(1))}.")
    for label, pat in [("version", r'format!\("(version=)\{\}"'), ("salt", r'format!\("(salt=)\{\}"'), ("col", r'format!\("(col)\{\}=\{\}"')]:
        mm = re.search(pat, options)
        if not mm:
            raise Broken(f"metadata line format for {label} not found")
        out.append(f"Definition meta_prefix_{label} : list N := {bytes_list(mm.group(1))}.")
    for label, text in [("index", index), ("table", table), ("refcount", refc)]:
        mm = re.search(r'name\.starts_with\(&format!\("([a-z]+_)\{col:02\}_"\)\)', text)
        if not mm:
            raise Broken(f"is_file_name of {label} is no longer starts_with(\"<kind>_{{col:02}}_\")")
        out.append(f"Definition file_prefix_{label} : list N := {bytes_list(mm.group(1))}.")

    text = ("(* GENERATED by tools/gen_consts.py from /repo/src on every check run. Do not edit. *)\n"
            "From Coq Require Import NArith List.\nImport ListNotations.\nOpen Scope N_scope.\n\n"
            + "\n".join(out) + "\n")
    # the same numbers for the Rust harness (raw-file parsing needs the slot sizes)
    import json
    work = os.path.join(os.path.dirname(os.path.abspath(__file__)), "..", "work")
    os.makedirs(work, exist_ok=True)
    cj = json.dumps({"sizes": sizes, "multipart_entry_size": tenv["MULTIPART_ENTRY_SIZE"]})
    cpath = os.path.join(work, "consts.json")
    if not os.path.exists(cpath) or open(cpath).read() != cj:
        open(cpath, "w").write(cj)
    os.makedirs(os.path.dirname(OUT), exist_ok=True)
    old = None
    if os.path.exists(OUT):
        old = open(OUT).read()
    if old != text:
        with open(OUT, "w") as f:
            f.write(text)
        print("gen_consts: Consts.v rewritten")
    else:
        print("gen_consts: Consts.v unchanged")


if __name__ == "__main__":
    try:
        main()
    except Broken as e:
        print("gen_consts: BROKEN TIE:", e)
        sys.exit(2)
